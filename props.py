"""Per-property check definitions: which harnesses (overlay files under /verif/harness)
the engine executes symbolically, their bounds, the covers that guard against vacuity,
and the text that goes into the evidence."""

Z = "github.com/internetarchive/Zeno"
DEFAULT_STUBS = [
    Z + "/internal/pkg/log", "github.com/davecgh/go-spew", "log/slog", "log",
    "github.com/prometheus/client_golang", "github.com/dustin/go-humanize",
]
STATS = Z + "/internal/pkg/stats"
DEFAULT_INIT = ["io", "errors"]
DEFAULT_MODELS = {}

COMMON_ASSUME = [
    "go/ssa faithfully represents the compiled program (same front end, go1.24.2 type checker)",
    "engine semantics of SSA instructions, bit-vector integers (wrap-around), IEEE-754 binary64 (RNE) and amd64 float->int conversion results",
    "logging, spew, slog, prometheus and humanize calls are no-ops (formatting is never the subject)",
]

PROPS = {}

PROPS["C18"] = {
    "level": "proof",
    "explanation": "checkThreshold is executed symbolically from its SSA over total,free: 64-bit vectors and minSpaceRequired: IEEE double; "
                   "the refusal verdict is compared with an independent exact oracle (integer/rational arithmetic) on every path; z3 returns unsat for "
                   "'verdict differs from oracle' and for 'accept(free1) and refuse(free2>=free1)' over the full input domain - no input bound.",
    "bounds": "none inside checkThreshold: all 2^64 x 2^64 totals/free values and every float64 (incl. NaN, +-Inf, subnormals) for min-space-required; "
              "CheckDiskUsage wiring: any Statfs result (Blocks, Bavail, Bfree, Bsize 64-bit)",
    "outside": "syscall.Statfs itself and the pause/refuse-to-start reaction of the callers (covered only as data flow into checkThreshold)",
    "assumptions": COMMON_ASSUME + ["math.Ceil = fp.roundToIntegral RTP (used by the oracle and the repaired code)"],
    "harnesses": [
        {"pkg": "internal/pkg/controler/watchers", "func": "VerifH_C18_exact",
         "covers": ["operator-threshold", "scaled-default", "flat-default", "refused", "accepted"]},
        {"pkg": "internal/pkg/controler/watchers", "func": "VerifH_C18_monotone",
         "covers": ["both-accept", "refuse-then-accept"]},
    ],
}
