"""Per-property check definitions: which harnesses (overlay files under /verif/harness)
the engine executes symbolically, their bounds, the covers that guard against vacuity,
and the text that goes into the evidence."""

Z = "github.com/internetarchive/Zeno"
DEFAULT_STUBS = [
    Z + "/internal/pkg/log", "github.com/davecgh/go-spew", "log/slog", "log",
    "github.com/prometheus/client_golang", "github.com/dustin/go-humanize",
    "regexp", "mvdan.cc/xurls/v2",
]
STATS = Z + "/internal/pkg/stats"
DEFAULT_INIT = ["io", "errors", "unicode/utf8"]
DEFAULT_MODELS = {
    "github.com/CorentinB/warc.NewWARCWritingHTTPClient": Z + "/internal/verifmodel.NewWARCWritingHTTPClient",
    "(*github.com/CorentinB/warc.CustomHTTPClient).Close": Z + "/internal/verifmodel.WarcClientClose",
    "(*github.com/internetarchive/gocrawlhq.Client).Add": Z + "/internal/verifmodel.HQAdd",
    "(*github.com/internetarchive/gocrawlhq.Client).Delete": Z + "/internal/verifmodel.HQDelete",
    "(*github.com/internetarchive/gocrawlhq.Client).Seencheck": Z + "/internal/verifmodel.HQSeencheck",
    "golang.org/x/net/idna.ToASCII": Z + "/internal/verifmodel.IdnaToASCII",
    "github.com/grafov/m3u8.DecodeFrom": Z + "/internal/verifmodel.M3U8DecodeFrom",
    "encoding/json.Unmarshal": Z + "/internal/verifmodel.JSONUnmarshal",
    "(*encoding/json.Decoder).Decode": Z + "/internal/verifmodel.JSONDecoderDecode",
    "strings.Split": Z + "/internal/verifmodel.StringsSplit",
    "strings.SplitN": Z + "/internal/verifmodel.StringsSplitN",
    "strings.SplitAfterN": Z + "/internal/verifmodel.StringsSplitAfterN",
    "strings.Trim": Z + "/internal/verifmodel.StringsTrim",
    "strings.TrimLeft": Z + "/internal/verifmodel.StringsTrimLeft",
    "strings.TrimRight": Z + "/internal/verifmodel.StringsTrimRight",
    "strings.TrimSpace": Z + "/internal/verifmodel.StringsTrimSpace",
    "strings.TrimPrefix": Z + "/internal/verifmodel.StringsTrimPrefix",
    "strings.TrimSuffix": Z + "/internal/verifmodel.StringsTrimSuffix",
    "strings.LastIndexByte": Z + "/internal/verifmodel.StringsLastIndexByte",
    "strings.LastIndex": Z + "/internal/verifmodel.StringsLastIndex",
    "strings.Count": Z + "/internal/verifmodel.StringsCount",
    "strings.Repeat": Z + "/internal/verifmodel.StringsRepeat",
    "strings.Replace": Z + "/internal/verifmodel.StringsReplace",
    "strings.ReplaceAll": Z + "/internal/verifmodel.StringsReplaceAll",
    "strings.Cut": Z + "/internal/verifmodel.StringsCut",
    "strings.Join": Z + "/internal/verifmodel.StringsJoin",
    "strings.ContainsAny": Z + "/internal/verifmodel.StringsContainsAny",
    "strings.Fields": Z + "/internal/verifmodel.StringsFields",
}

COMMON_ASSUME = [
    "go/ssa faithfully represents the compiled program (same front end, go1.24.2 type checker)",
    "engine semantics of SSA instructions, bit-vector integers (wrap-around), IEEE-754 binary64 (RNE) and amd64 float->int conversion results",
    "logging, spew, slog, prometheus and humanize calls are no-ops (formatting is never the subject); regexp/xurls objects are opaque (their methods return zero values) - no claimed obligation depends on a regular expression",
]

PROPS = {}

NOT_APPLICABLE = {}

PROPS["C18"] = {
    "technique": 'symbolic execution of go/ssa; SMT (z3/cvc5, QF_BVFP) over full-width inputs - unbounded',
    "level": "proof",
    "explanation": "checkThreshold is executed symbolically from its SSA over total,free: 64-bit vectors and minSpaceRequired: IEEE double; "
                   "the refusal verdict is compared with an independent exact oracle (integer/rational arithmetic) on every path; z3 returns unsat for "
                   "'verdict differs from oracle' and for 'accept(free1) and refuse(free2>=free1)' over the full input domain - no input bound.",
    "bounds": "none inside checkThreshold: all 2^64 x 2^64 totals/free values and every float64 (incl. NaN, +-Inf, subnormals) for min-space-required; "
              "CheckDiskUsage wiring: any Statfs result (Blocks, Bavail, Bfree, Bsize 64-bit)",
    "outside": "syscall.Statfs itself and the pause/refuse-to-start reaction of the callers (covered only as data flow into checkThreshold)",
    "assumptions": COMMON_ASSUME + ["math.Ceil = fp.roundToIntegral RTP (used by the oracle and the repaired code)"],
    "harnesses": [
        {"pkg": "internal/pkg/controler/watchers", "func": "VerifH_C18_exact",
         "covers": ["operator-threshold", "scaled-default", "flat-default", "refused", "accepted"]},
        {"pkg": "internal/pkg/controler/watchers", "func": "VerifH_C18_monotone",
         "covers": ["both-accept", "refuse-then-accept"]},
    ],
}

RL = "internal/pkg/archiver/ratelimiter"
_c13 = {"abstract_time": True, "solver": "z3-new,cvc5", "timeout_ms": 90000}
PROPS["C13"] = {
    "technique": 'symbolic execution of go/ssa from an arbitrary invariant state; SMT (z3 raced with cvc5) over IEEE doubles - inductive step lemmas',
    "level": "proof",
    "explanation": "inductive-step lemmas: each real tokenBucket method (refill, Wait, adjustOnFailure, onSuccess) is executed symbolically from an ARBITRARY "
                   "bucket state satisfying the stated invariant (all fields symbolic IEEE doubles / 64-bit ints, clock symbolic); z3/cvc5 answer unsat for the negation "
                   "of each post-condition, so the lemmas hold for histories of any length. The window bound 'releases in T <= capacity + T x configured rate' follows from "
                   "the lemmas by the usual token-bucket argument (DESIGN.md section 5/C13).",
    "bounds": "no bound on history length (induction); values: capacity in [1,2^20], configured rate in (0,2^20], failure streak < 2^40, virtual clock within 2^50 ns; "
              "Wait explored for at most two loop iterations; getBucket/evictLFU with <=3 hosts",
    "outside": "wall-clock (non-monotonic) time values; concurrent callers are serialised by tb.mu (method bodies run under the mutex - checked structurally by executing Lock/Unlock intrinsics)",
    "assumptions": COMMON_ASSUME + [
        "time.Time values are monotonic clock readings of one process (time.Now); Time.Add/Sub/Before/After/Equal are modelled on the monotonic reading exactly as the std library does for such values (incl. Sub saturation); the zero Time is before every reading",
        "math.Pow(2,n)/(0.5,n) for integral n: exact power-of-two construction incl. overflow to +Inf and underflow through subnormals to 0",
        "real-number step used outside the solver: refillRate <= idealRate and elapsed >= 0 imply elapsed*refillRate <= elapsed*idealRate",
    ],
    "harnesses": [
        {"pkg": RL, "func": "VerifH_C13_penalty", "opts": _c13, "covers": ["long-streak", "refill-before-penalty-end"]},
        {"pkg": RL, "func": "VerifH_C13_5xx", "opts": _c13, "covers": ["rate-lowered", "configured-rate-below-half"]},
        {"pkg": RL, "func": "VerifH_C13_other", "opts": _c13, "covers": ["other-code"]},
        {"pkg": RL, "func": "VerifH_C13_success", "opts": _c13, "covers": ["rate-recovers", "success-during-penalty"]},
        {"pkg": RL, "func": "VerifH_C13_refill", "opts": _c13, "covers": ["refill-adds", "refill-after-penalty", "refill-in-penalty"]},
        {"pkg": RL, "func": "VerifH_C13_wait1", "opts": _c13, "covers": ["wait-during-penalty", "wait-first-iteration"]},
        {"pkg": RL, "func": "VerifH_C13_wait", "opts": _c13, "thorough_only": True, "covers": ["wait-during-penalty", "wait-first-iteration", "wait-second-iteration"]},
    ],
}

MD = "pkg/models"
PROPS["C11"] = {
    "technique": 'symbolic execution of go/ssa on trees with symbolic shape/status/URL; assertion verdicts by SMT, branch feasibility by sliced finite-domain search',
    "level": "model_checking",
    "explanation": "the real pkg/models tree code (CheckConsistency, DedupeItems, markCompleted, CompleteAndCheck, GetMaxDepth, GetNodesAtLevel, AddChild, RemoveChild) "
                   "is executed symbolically on trees whose SHAPE (children counts), STATUSES (8 values per node) and URL classes are solver variables; the model's own "
                   "CheckConsistency, executed symbolically, is the assumed invariant; reference predicates written in the harness are the oracle. One run covers every tree in the bound.",
    "bounds": "trees up to 3 levels x 2 children (7 nodes) and 2 levels x 4 children; thorough adds 4 levels with at most 2/2/1 children per level (11 nodes) for completion - 4 levels x 2 children (15 nodes) did not finish in 30 min and is not claimed; 3 URL classes; one operation from an arbitrary consistent tree",
    "outside": "larger trees; URL.String() canonicalisation (the cached string is set directly); concurrent mutation of one tree (the pipeline hands a seed to one goroutine at a time)",
    "assumptions": COMMON_ASSUME + ["item ids are distinct (uuid contract)", "append growth: capacity doubles (aliasing of re-sliced children arrays follows that policy)"],
    "harnesses": [
        {"pkg": MD, "func": "VerifH_C11_dedupe_small", "covers": ["dedupe-removed-a-node"]},
        {"pkg": MD, "func": "VerifH_C11_dedupe_anytree", "covers": ["dedupe-removed-a-node"]},
        {"pkg": MD, "func": "VerifH_C11_dedupe_wide", "covers": ["dedupe-removed-a-node"], "thorough_only": True, "opts": {"max_wall_s": 1500}},
        {"pkg": MD, "func": "VerifH_C11_complete_small", "covers": ["complete-true", "complete-false"]},
        {"pkg": MD, "func": "VerifH_C11_complete_deep", "covers": ["complete-true", "complete-false"], "thorough_only": True, "opts": {"max_wall_s": 3000}},
        {"pkg": MD, "func": "VerifH_C11_levels", "covers": ["three-levels"]},
        {"pkg": MD, "func": "VerifH_C11_addremove", "covers": ["added", "removed"]},
    ],
}

RX = "internal/pkg/reactor"
PROPS["C12"] = {
    "technique": 'bounded model checking of go/ssa under an explicit scheduler (sleep-set POR, preemption bound, race detector); data concrete',
    "level": "model_checking",
    "explanation": "the real reactor (Start, ReceiveInsert, ReceiveFeedback, MarkAsFinished, Freeze, Stop, run, GetStateTable) is executed from its SSA together with its own "
                   "goroutine; channel operations, select arm choice, sync.Map/Once/WaitGroup/context operations and every goroutine switch are decision variables of the executor, "
                   "so every interleaving within the preemption bound and every client operation sequence within the bound is explored; a blocked call is detected as a state with no enabled goroutine.",
    "bounds": "1-2 tokens; one client issuing up to 4 operations from {insert, read output, feedback, finish(+repeat), feedback unknown, finish unknown, freeze}; the reactor's run goroutine; <=2 preemptive context switches per path (switches at blocking points are free)",
    "outside": "more than one concurrent client goroutine except for two concurrent finishes of one seed; more than 2 preemptions; non-seed items and duplicate ids (documented panics)",
    "assumptions": COMMON_ASSUME + ["Go memory model taken as sequentially consistent at channel/sync/atomic operations; plain loads/stores are not preemption points (data-race freedom assumed)",
                                    "select picks any ready arm (symbolic choice), default only when none is ready"],
    "harnesses": [
        {"pkg": RX, "func": "VerifH_C12_accounting3", "replay_tries": 40, "covers": ["delivered", "feedback", "finish", "feedback-unknown", "insert-blocks-when-full"]},
        {"pkg": RX, "func": "VerifH_C12_freeze3", "replay_tries": 40, "covers": ["insert-after-freeze", "drained-after-freeze"]},
        {"pkg": RX, "func": "VerifH_C12_stop", "replay_tries": 40, "covers": ["stopped"]},
        {"pkg": RX, "func": "VerifH_C12_concurrent_finish", "replay_tries": 10, "replay_repeat": 200000, "covers": ["two-finishes"]},
        {"pkg": RX, "func": "VerifH_C12_waiting_insert", "replay_tries": 10, "covers": ["waiting-insert-frozen", "waiting-insert-admitted"]},
        {"pkg": RX, "func": "VerifH_C12_accounting4", "replay_tries": 40, "thorough_only": True, "opts": {"max_wall_s": 1500}, "covers": ["delivered", "feedback", "finish"]},
    ],
}

PA = "internal/pkg/controler/pause"
WATCH_MODELS = dict(DEFAULT_MODELS)
WATCH_MODELS.update({"syscall.Statfs": Z + "/internal/verifmodel.Statfs", Z + "/internal/pkg/archiver.GetWARCWritingQueueSize": Z + "/internal/verifmodel.WARCQueueSize"})
PROPS["C14"] = {
    "technique": 'bounded model checking of go/ssa under an explicit scheduler (sleep-set POR, preemption bound, race detector); data concrete',
    "level": "model_checking",
    "explanation": "the real pause manager (Subscribe, Unsubscribe, Pause, Resume, IsPaused), the real stage worker loops and the real watchdog loops (WatchDiskSpace, StartWatchWARCWritingQueue; disk state and queue length scripted, timer firings granted by the harness) are executed from SSA with their goroutines; "
                   "every Pause/Resume call sequence within the bound and every interleaving within the preemption bound is explored; a caller or worker blocked forever shows up as a state with no enabled goroutine.",
    "bounds": "1-2 subscribed workers; <=3 controller calls from {Pause, Resume, hand out work}; two concurrent controllers each doing Pause;Resume; the real disk watchdog loop + operator toggle + one worker over 3 events from {disk low + firing, disk ok + firing, operator toggle, work}; thorough: disk watchdog + WARC-queue watchdog (all three tickers) + one worker over 2 rounds of (disk state, queue length, work, 1-2 timer firings); <=2 preemptions per path",
    "outside": "more workers/calls; the TUI widget code (its pause/unpause toggle is reproduced in the harness); native replay of the WARC-queue watchdog (its queue length cannot be scripted outside the archiver package: a counterexample there is reported as inconclusive). Observed, not a violation of the statement: the watchdogs and the operator share one pause flag, so a resume by one controller also ends a pause another controller asked for (e.g. the queue watchdog resumes while the disk is still low, and the disk watchdog, believing the pipeline paused, does not pause again)",
    "assumptions": COMMON_ASSUME + ["sequential consistency at channel/atomic/sync operations; plain accesses are not preemption points"],
    "stub_pkgs": DEFAULT_STUBS + [STATS],
    "harnesses": [
        {"pkg": PA, "func": "VerifH_C14_protocol", "replay_tries": 5, "covers": ["matched-resume", "unmatched-resume", "done"]},
        {"pkg": PA, "func": "VerifH_C14_two_controllers", "replay_tries": 50, "covers": ["both-returned"]},
        {"pkg": PA, "func": "VerifH_C14_protocol4", "replay_tries": 5, "thorough_only": True, "opts": {"max_wall_s": 1500}, "covers": ["matched-resume", "unmatched-resume", "done"]},
        {"pkg": "internal/pkg/finisher", "func": "VerifH_C14_finisher_workers", "replay_tries": 5, "covers": ["stop-while-paused", "stop-while-running", "stopped"]},
        {"pkg": "internal/pkg/controler/watchers", "func": "VerifH_C14_disk_watchdog", "replay_tries": 5, "models": WATCH_MODELS,
         "covers": ["disk-low", "watchdog-resumed", "operator", "paused", "watchdog-stopped", "left-paused"]},
        {"pkg": "internal/pkg/controler/watchers", "func": "VerifH_C14_two_watchdogs", "models": WATCH_MODELS, "thorough_only": True, "opts": {"max_wall_s": 900}, "covers": ["paused", "watchdogs-stopped"]},
    ],
}

ST = "internal/pkg/stats"
PROPS["C17"] = {
    "technique": 'schedule exploration of go/ssa (sleep-set POR, race detector) + SMT for the symbolic step/sample sums and the wildcard matcher',
    "level": "model_checking",
    "explanation": "the real counter/rate/mean/rateBucket code and the public wrappers are executed from SSA on 2-3 concurrent goroutines with SYMBOLIC step/sample values; "
                   "every interleaving of the atomic/mutex operations (sleep-set reduced) is explored and at quiescence the solver proves total == sum of the symbolic steps, mean == sum/count; "
                   "the status-code wildcard filter is compared with a reference matcher on symbolic strings.",
    "bounds": "3 goroutines x <=3 operations; step/sample values < 2^40 (no overflow of the 64-bit sums); 2 status-code keys; patterns and codes up to 3 bytes; worker gauges of the preprocessor and postprocessor stages with 1-2 workers, stopped idle or paused",
    "outside": "reads taken during a burst (the statement speaks of totals after a burst); Prometheus mirrors (nil in the harness); per-second rate window",
    "assumptions": COMMON_ASSUME + ["sequential consistency at atomic/mutex operations"],
    "real_pkgs": [STATS],
    "harnesses": [
        {"pkg": ST, "func": "VerifH_C17_counter", "replay_tries": 3, "replay_repeat": 300000, "covers": ["burst-done"]},
        {"pkg": ST, "func": "VerifH_C17_rate_mean", "replay_tries": 3, "replay_repeat": 300000, "covers": ["burst-done"]},
        {"pkg": ST, "func": "VerifH_C17_mean_get", "covers": ["empty", "non-empty"]},
        {"pkg": ST, "func": "VerifH_C17_bucket", "replay_tries": 3, "replay_repeat": 300000, "covers": ["burst-done"]},
        {"pkg": ST, "func": "VerifH_C17_match", "covers": ["matched", "not-matched"]},
        {"pkg": "internal/pkg/preprocessor", "func": "VerifH_C17_preprocessor_gauge", "replay_tries": 3, "covers": ["stopped", "stopped-while-paused"]},
        {"pkg": "internal/pkg/postprocessor", "func": "VerifH_C17_postprocessor_gauge", "replay_tries": 3, "covers": ["stopped", "stopped-while-paused"]},
        {"pkg": ST, "func": "VerifH_C17_public", "replay_tries": 3, "replay_repeat": 300000, "covers": ["burst-done"]},
    ],
}

AR = "internal/pkg/archiver"
PROPS["C03"] = {
    "technique": 'bounded model checking of go/ssa under an explicit scheduler over the configuration matrix; data concrete',
    "level": "model_checking",
    "explanation": "Zeno's side of graceful stop: the real archiver Start/Stop (with startWARCWriter, the discard hook chain, the bucket manager and the worker goroutines) and the real stage worker loops "
                   "are executed from SSA for every point of the configuration matrix (proxy/direct, rate limiter on/off, HTTP timeout, 1-2 workers) and every interleaving within the preemption bound; "
                   "a nil dereference is a panic on some path, a Stop that never returns is a state with no enabled goroutine.",
    "bounds": "configuration matrix: proxy x rate-limit x http-timeout x {1,2} workers; idle stages (no seed in flight) or one pass-through seed; paused or not; <=2 preemptions",
    "outside": "that every .open WARC file is renamed and holds only complete records (CorentinB/warc writer goroutines and the file system); mid-fetch stops (the HTTP client); stopPipeline's ordering across stages",
    "assumptions": COMMON_ASSUME + ["warc.NewWARCWritingHTTPClient is modelled by a constructor returning a non-nil client whose Close()/WaitGroup are the library's real code (no network, files or writer goroutines)",
                                    "time.After/tickers never fire unless the harness grants ticks"],
    "stub_pkgs": DEFAULT_STUBS + [STATS],
    "harnesses": [
        {"pkg": AR, "func": "VerifH_C03_archiver_startstop", "replay_tries": 2, "covers": ["proxy", "direct", "stopped"]},
        {"pkg": AR, "func": "VerifH_C03_archiver_workers", "replay_tries": 4, "covers": ["seed-in-flight", "stop-while-paused", "stopped"]},
        {"pkg": "internal/pkg/postprocessor", "func": "VerifH_C03_postprocessor_stop", "replay_tries": 4, "covers": ["seed-in-flight", "outlinks-in-flight", "stop-while-paused", "stopped"]},
        {"pkg": "internal/pkg/preprocessor", "func": "VerifH_C03_preprocessor_stop", "replay_tries": 4, "covers": ["stop-while-paused", "stopped"]},
        {"pkg": "internal/pkg/finisher", "func": "VerifH_C14_finisher_workers", "replay_tries": 4, "covers": ["stop-while-paused", "stopped"]},
        {"pkg": RX, "func": "VerifH_C12_stop", "replay_tries": 10, "covers": ["stopped"]},
    ],
}

EX = "internal/pkg/postprocessor/extractor"
PROPS["C19"] = {
    "technique": 'symbolic execution of go/ssa on symbolic documents (strings as byte vectors, symbolic sizes/flags); SMT verdicts',
    "level": "model_checking",
    "explanation": "the extractors' own link-construction code (hasFileExtension, findURLs/GetURLsFromJSON split, M3U8 playlist walk, s3Legacy, s3V2) is executed from SSA on documents whose shape is chosen "
                   "symbolically (JSON value trees, playlists with nil slots, bucket pages with symbolic object sizes/truncation) and compared with reference rules written from the statement; net/url is executed from its real SSA.",
    "bounds": "URL texts <=6 bytes over {a . / ? #}; JSON trees depth<=2 (quick) / 3 (thorough; the outermost container of a depth-3 tree holds at most one value - full width 2 at depth 3 did not finish in 25 min and is not claimed), width<=2, 5 leaf kinds incl. JSON-in-string; XML documents of <=2 top-level nodes, each one of 8 leaf shapes (attribute, text, CDATA, escaped entity, two attributes, no URL, text after a child element, text after a self-closing element) or a container of <=2 leaves; playlists <=3 segments / <=2 variants x <=2 alternatives; S3 pages <=2 objects (3 key shapes, symbolic sizes), <=2 common prefixes, truncation flag and token symbolic",
    "outside": "JSON/M3U8 tokenisation (encoding/json and grafov/m3u8 are modelled as delivering the value the harness built; natively the replay goes through the real decoders; encoding/xml's tokenizer itself runs from SSA); URLs found in XML text by the xurls regular expression (text nodes that do not start with http, e.g. indented ones); multi-page bucket walks",
    "assumptions": COMMON_ASSUME + ["strings.Split/Trim/... are replaced by plain-Go models validated against the real functions on all strings <=5 over a 4-letter alphabet (verifmodel self-test)",
                                    "json.Decoder.Decode / json.Unmarshal / m3u8.DecodeFrom return the harness-built value (contract: total, no panic)"],
    "init_pkgs": DEFAULT_INIT + ["encoding/xml", "bufio", "bytes"],
    "harnesses": [
        {"pkg": EX, "func": "VerifH_C19_extension", "covers": ["has-extension", "no-extension"]},
        {"pkg": EX, "func": "VerifH_C19_json_depth2", "opts": {"max_steps": 20000000}, "covers": ["json-in-string", "json-in-string-escaped", "several-urls"]},
        {"pkg": EX, "func": "VerifH_C19_json_depth3", "opts": {"max_steps": 20000000, "max_wall_s": 1500}, "thorough_only": True, "covers": ["json-in-string", "several-urls"]},
        {"pkg": EX, "func": "VerifH_C19_s3_legacy", "covers": ["object-linked", "next-page"]},
        {"pkg": EX, "func": "VerifH_C19_s3_v2", "covers": ["objects-and-prefixes", "prefix-linked", "continuation"]},
        {"pkg": EX, "func": "VerifH_C19_xml", "opts": {"max_steps": 50000000, "unwind": 100000, "map_order_all": False}, "covers": ["xml-url-planted", "xml-asset", "xml-outlink", "xml-several"]},
        {"pkg": EX, "func": "VerifH_C19_m3u8", "covers": ["media", "master", "alternative"]},
    ],
}

PROPS["C10"] = {
    "technique": 'symbolic execution of go/ssa on symbolic byte strings; every index/slice/assertion is a panic obligation decided by SMT',
    "level": "model_checking",
    "explanation": "Zeno's own string/shape handling of server-controlled input (Link header parser, attribute splitter, JSON-in-JSON sniffing, findURLs over arbitrary value shapes, file-extension rule, M3U8 walk with nil slots) "
                   "is executed from SSA on SYMBOLIC byte strings; every index, slice, type assertion and nil dereference on every path is a panic obligation, every loop carries an unwinding bound (a spin would exceed it).",
    "bounds": "header/attribute/text strings up to 6-7 bytes over the delimiter alphabets the parsers look at; 6 JSON value shapes; one XML document (sitemap with text, attribute, CDATA, comment) cut at every byte position; srcset / data-srcset texts <=4 bytes over {a , blank newline} on img and source; playlists as in C19",
    "outside": "panics or hangs INSIDE third-party decoders (x/net/html, encoding/json, grafov/m3u8, pdfcpu, goada): those code bases are not encoded, the decoders are total stubs (encoding/xml's RawToken does run from SSA on the truncated documents); HTML extraction beyond srcset splitting, PDF, sitespecific extractors; URL normalisation; body processing",
    "assumptions": COMMON_ASSUME + ["library decoders return or fail (no panic) - the claim is about Zeno's code given such decoders",
                                    "strings.* models validated differentially (verifmodel self-test)"],
    "init_pkgs": DEFAULT_INIT + ["encoding/xml", "bufio", "bytes"],
    "harnesses": [
        {"pkg": EX, "func": "VerifH_C10_link_header", "covers": ["parsed", "two-links", "simple-link"]},
        {"pkg": EX, "func": "VerifH_C10_attr", "covers": ["no-equals", "key-value"]},
        {"pkg": EX, "func": "VerifH_C10_json_shapes", "covers": ["walked"]},
        {"pkg": EX, "func": "VerifH_C10_srcset", "opts": {"max_steps": 50000000, "unwind": 100000, "map_order_all": False}, "covers": ["srcset-parsed", "srcset-candidate"]},
        {"pkg": EX, "func": "VerifH_C10_xml_truncated", "opts": {"max_steps": 50000000, "unwind": 100000, "map_order_all": False}, "covers": ["xml-cut", "xml-whole", "xml-error"]},
        {"pkg": EX, "func": "VerifH_C19_m3u8", "covers": ["media", "master"]},
        {"pkg": EX, "func": "VerifH_C19_extension", "covers": ["has-extension"]},
        {"pkg": EX, "func": "VerifH_C19_s3_legacy", "covers": ["object-linked"]},
        {"pkg": EX, "func": "VerifH_C19_s3_v2", "covers": ["prefix-linked"]},
    ],
}

HQ = "internal/pkg/source/hq"
PROPS["C15"] = {
    "technique": 'schedule exploration of go/ssa (sleep-set POR, race detector, fault sequences) + SMT for symbolic hop counts',
    "level": "model_checking",
    "explanation": "the real HQ producer chain (producer, producerReceiver, producerDispatcher, producerSender with its retry/back-off loop) runs from SSA with its goroutines against a crawl-HQ stub that fails the first k calls; "
                   "batch size, number of items, hop counts (symbolic), timer firings and every interleaving within the preemption bound are explored; at quiescence each outlink must sit in exactly one successful Add with value, via and hops intact. "
                   "hopsToPath/pathToHops round trip for symbolic hop counts and arbitrary paths.",
    "bounds": "1-2 outlinks, batch size 1-2, 0-2 failing Add calls before HQ recovers, 2 timer firings, hops 0..2 (round trip 0..12, paths <=5 bytes); <=2 preemptions",
    "outside": "the local SQLite queue (uniqueness of waiting URLs, lq delivery); the HQ finisher/consumer chains; HQ websocket; real network failures (natively the replay uses an httptest stand-in)",
    "assumptions": COMMON_ASSUME + ["gocrawlhq.Client.Add/Delete either deliver the whole batch or fail as a whole, per a fault sequence", "time.Sleep returns; tickers fire at most the granted number of times"],
    "stub_pkgs": DEFAULT_STUBS + [STATS],
    "init_pkgs": DEFAULT_INIT + ["database/sql"],
    "harnesses": [
        {"pkg": HQ, "func": "VerifH_C15_hops_roundtrip", "covers": ["zero-hops", "some-hops"]},
        {"pkg": HQ, "func": "VerifH_C15_producer", "replay_tries": 2, "covers": ["hq-failed-first", "timer-flush", "outlink-arrives-during-retry", "stopped"]},
        {"pkg": HQ, "func": "VerifH_C15_finisher", "replay_tries": 2, "replay_timeout_s": 40, "covers": ["hq-failed-first", "hq-unanswered", "timer-flush", "stopped"]},
        {"pkg": HQ, "func": "VerifH_C15_finisher3", "thorough_only": True, "replay_tries": 2, "replay_timeout_s": 40, "opts": {"max_wall_s": 1800}, "covers": ["hq-failed-first", "hq-unanswered", "timer-flush", "stopped"]},
        {"pkg": HQ, "func": "VerifH_C15_finisher_stalled", "replay_tries": 1, "replay_timeout_s": 120, "opts": {"no_preempt": True},
         "covers": ["hand-over-channel-full", "stopped"]},
        {"pkg": HQ, "func": "VerifH_C15_producer_timeout", "replay_tries": 1, "replay_timeout_s": 60, "covers": ["hq-failed-first", "timer-flush", "stopped"]},
        {"pkg": "internal/pkg/source/lq", "func": "VerifH_C15_lq", "replay_tries": 2, "replay_timeout_s": 60,
         "opts": {"sleep_env": True, "map_order_all": False, "max_steps": 20000000, "max_wall_s": 900, "no_preempt": True},
         "covers": ["duplicate-outlink", "new-outlink-after-duplicate", "round-trip", "stopped"]},
    ],
}

PP = "internal/pkg/postprocessor"
EXT = Z + "/internal/pkg/postprocessor/extractor."
SS = Z + "/internal/pkg/postprocessor/sitespecific/"
VM = Z + "/internal/verifmodel."
POSTPROC_MODELS = dict(DEFAULT_MODELS)
POSTPROC_MODELS.update({
    EXT + "IsHTML": VM + "IsHTML", EXT + "IsJSON": VM + "IsJSON", EXT + "IsXML": VM + "IsXML", EXT + "IsM3U8": VM + "IsM3U8",
    EXT + "IsS3": VM + "IsS3", EXT + "IsSitemapXML": VM + "IsSitemap", EXT + "IsPDF": VM + "IsPDF",
    EXT + "M3U8": VM + "AssetsOnlyURL", EXT + "JSON": VM + "AssetsAndOutlinks", EXT + "XML": VM + "AssetsAndOutlinks",
    EXT + "HTMLAssets": VM + "AssetsOnlyItem", EXT + "HTMLOutlinks": VM + "OutlinksOnlyItem", EXT + "S3": VM + "OutlinksOnlyURL", EXT + "PDF": VM + "OutlinksOnlyURL",
    EXT + "ExtractURLsFromHeader": VM + "HeaderURLs",
    Z + "/internal/pkg/postprocessor.extractLinksFromPage": VM + "NoLinks",
    SS + "ina.IsAPIURL": VM + "False", SS + "truthsocial.NeedExtraction": VM + "False", SS + "truthsocial.IsAccountURL": VM + "False",
    SS + "truthsocial.IsAccountLookupURL": VM + "False", SS + "reddit.IsRedditURL": VM + "False", SS + "reddit.IsPostAPI": VM + "False",
    Z + "/internal/pkg/postprocessor/domainscrawl.Match": VM + "DomainsMatch",
    "(*github.com/gabriel-vasile/mimetype.MIME).String": VM + "MIMEString", "(*github.com/gabriel-vasile/mimetype.MIME).Is": VM + "MIMEIs",
    Z + "/pkg/models.URLToString": VM + "URLToString",
})
for _h in PROPS["C03"]["harnesses"]:
    if _h["func"] == "VerifH_C03_postprocessor_stop":
        _h["models"] = POSTPROC_MODELS  # the outlink-feeding scenario post-processes a page
PROPS["C06"] = {
    "technique": 'symbolic execution of go/ssa with symbolic counters/limits (SMT) over enumerated tree positions and document kinds',
    "level": "model_checking",
    "explanation": "one real post-processing step (postprocessItem with extractAssets/extractOutlinks tails, shouldExtract*, GetDepthWithoutRedirections, AddChild) from an archived item at an arbitrary tree position "
                   "(symbolic chain of redirect/asset edges up to depth 4), for symbolic redirect/hop counters and limits, every response class and every extractor outcome; the retry loop of archive() is covered by C02. "
                   "Inductive reading: the redirect counter strictly increases along a chain and is capped, asset depth is capped, so the number of passes per seed is bounded.",
    "bounds": "tree position: chains of <=4 edges; max-redirect 0..3, redirects 0..3, max-hops 0..2, hops 0..2; 8 status codes; 5 document kinds; <=2 assets and <=2 outlinks per document; asset capture on/off; domains-crawl on/off",
    "outside": "what the extractors find in real documents (modelled: they return the harness's URL lists or fail); domains-crawl pattern matching (modelled as an arbitrary predicate); the archiver's retry loop (see C02)",
    "assumptions": COMMON_ASSUME + ["extractor.* return arbitrary URL lists or an error; sitespecific predicates are false; models.URLToString returns scheme://host/path for the harness's plain URLs; uuid.New().String() yields distinct ids"],
    "models": POSTPROC_MODELS,
    "harnesses": [
        {"pkg": PP, "func": "VerifH_C06_postprocess", "opts": {"map_order_all": False},
         "covers": ["redirect-limit-reached", "redirect-followed", "redirect-without-location", "asset-depth-limit", "asset-added", "outlink-queued", "outlink-domains-crawl", "link-header", "outlink-expected", "body-released"]},
    ],
}

PRE = "internal/pkg/preprocessor"
ADA = "github.com/ada-url/goada."
URL_MODELS = dict(DEFAULT_MODELS)
URL_MODELS.update({
    ADA + "New": VM + "AdaNew", ADA + "NewWithBase": VM + "AdaNewWithBase",
    "(*" + ADA + "Url).SetHash": VM + "AdaSetHash", "(*" + ADA + "Url).Protocol": VM + "AdaProtocol", "(*" + ADA + "Url).Hostname": VM + "AdaHostname", "(*" + ADA + "Url).Host": VM + "AdaHost",
    "(*" + ADA + "Url).Href": VM + "AdaHref", "(*" + ADA + "Url).Free": VM + "AdaFree",
    "net/http.NewRequest": VM + "HTTPNewRequest",
    "(github.com/philippgille/gokv/leveldb.Store).Get": VM + "LevelGet", "(github.com/philippgille/gokv/leveldb.Store).Set": VM + "LevelSet",
    "(github.com/philippgille/gokv/leveldb.Store).Close": VM + "LevelClose",
    "github.com/philippgille/gokv/leveldb.NewStore": VM + "LevelNewStore",
    Z + "/pkg/models.URLToString": VM + "URLToStringQ",
})
LQ = "internal/pkg/source/lq"
SQLC = "github.com/internetarchive/Zeno/internal/pkg/source/lq/sqlc_model"
LQ_MODELS = dict(DEFAULT_MODELS)
LQ_MODELS.update({
    "database/sql.Open": VM + "LQSqlOpen", "(*database/sql.DB).SetMaxOpenConns": VM + "LQSetMaxOpenConns", "(*database/sql.DB).Exec": VM + "LQExec",
    "(*database/sql.DB).Begin": VM + "LQBegin", "(*database/sql.Tx).Commit": VM + "LQCommit", "(*database/sql.Tx).Rollback": VM + "LQRollback",
    "(*" + SQLC + ".Queries).WithTx": VM + "LQWithTx", "(*" + SQLC + ".Queries).GetFreshURLs": VM + "LQGetFreshURLs",
    "(*" + SQLC + ".Queries).ClaimThisURL": VM + "LQClaimThisURL", "(*" + SQLC + ".Queries).ResetURL": VM + "LQResetURL",
    "(*" + SQLC + ".Queries).DoneURL": VM + "LQDoneURL", "(*" + SQLC + ".Queries).DeleteURL": VM + "LQDeleteURL",
    "(*" + SQLC + ".Queries).AddURL": VM + "LQAddURL", "(*" + SQLC + ".Queries).ResetClaimedURLs": VM + "LQResetClaimedURLs",
})
for _h in PROPS["C15"]["harnesses"]:
    if _h["func"] == "VerifH_C15_lq":
        _h["models"] = LQ_MODELS
PROPS["C04"] = {
    "technique": 'bounded model checking of go/ssa under an explicit scheduler; the SQLite file is a table model with the contract of query.sql; stop/kill point and schedule are decision variables',
    "level": "model_checking",
    "explanation": "queue side of the property only: the real local-queue client, consumer (fetcher, sender), finisher and Stop code run from SSA with their goroutines against the real reactor; "
                   "the database is a table model of the six statements of query.sql with transactions on the single connection (the native replay uses a real SQLite file); "
                   "the job is stopped gracefully (order of controler.stopPipeline) or killed when an arbitrary subset of the URLs has been handed out / finished, then started again on the same database; "
                   "every URL not reported finished must be handed out again, exactly once.",
    "bounds": "2 URLs waiting (thorough: 2-3), the first of which may be a row that is not a request URI; consumer batch (workers) 1-2; reactor tokens 1-2; 0..n URLs handed out before the stop, each finished or in flight; acknowledgement timer fired or not; graceful stop or kill; context switches at blocking operations only (no preemption); the outlink producer of the queue is not started",
    "outside": "the WARC half of the statement (finished implies captured; readable record by record): needs the WARC library and a file system; a kill in the middle of an SQLite commit (SQLite's own atomicity); "
               "seeds given on the command line (they are never in the queue); a second process on the same job",
    "assumptions": COMMON_ASSUME + ["contract of the SQL layer as stated in verifmodel/lqdb.go (validated by the native replay of cover witnesses and counterexamples against real SQLite)",
                                    "a kill is modelled as the goroutines going away with no further database write (cancel without the shutdown path)",
                                    "time.Sleep in the queue's polling loop waits for a timer firing granted by the harness"],
    "models": LQ_MODELS,
    "init_pkgs": DEFAULT_INIT + ["database/sql"],
    "stub_pkgs": DEFAULT_STUBS + [STATS],
    "harnesses": [
        {"pkg": LQ, "func": "VerifH_C04_resume", "replay_tries": 3, "replay_timeout_s": 60, "opts": {"sleep_env": True, "map_order_all": False, "max_steps": 20000000, "max_wall_s": 900, "no_preempt": True},
         "covers": ["in-flight-at-stop", "finished-before-stop", "killed", "stopped-gracefully", "unfinished-url", "second-run-stopped", "unparsable-row", "time-between-freeze-and-stop"]},
        {"pkg": LQ, "func": "VerifH_C04_resume3", "thorough_only": True, "replay_tries": 3, "replay_timeout_s": 60, "opts": {"sleep_env": True, "map_order_all": False, "max_steps": 20000000, "max_wall_s": 3000, "no_preempt": True},
         "covers": ["in-flight-at-stop", "finished-before-stop", "killed", "stopped-gracefully", "unfinished-url", "second-run-stopped"]},
    ],
}

PROPS["C05"] = {
    "technique": 'execution of go/ssa over an enumerated URL-shape x filter matrix with modelled ada; data concrete',
    "level": "model_checking",
    "explanation": "the real preprocess() (normalisation glue, include/exclude filters, child removal, de-duplication, local seencheck, request construction) is executed from SSA for a seed, an asset child and a redirect target "
                   "whose URL is drawn from a table of URL shapes (good, built-in excluded host, non-http scheme, localhost, 127.0.0.1, dotless host, exclude-string, quoted, fragment, relative) under all 16 include/exclude filter combinations; "
                   "an independent scope predicate written from the statement decides which nodes may carry a request.",
    "bounds": "16 URL shapes x 16 include/exclude filter combinations x 3 exclusion files (none, one literal pattern, two of which the second matches) x {seed, 1-2 asset children, redirect target}; empty seen-store",
    "outside": "ada-url's parsing itself (modelled by a per-input outcome table; the native replay runs the real ada on the same inputs); regular-expression semantics beyond literal patterns (a literal pattern is modelled as substring search; the native replay uses the real regexp package); viper/flag parsing in front of GenerateCrawlConfig (the harness fills the Config struct; GenerateCrawlConfig itself runs from SSA with 0-2 scripted exclusion files)",
    "assumptions": COMMON_ASSUME + ["goada.New/NewWithBase return, per input, the protocol/hostname/href recorded in the harness table; Href() has no fragment iff SetHash(\"\") was called",
                                    "http.NewRequest returns a request for a parsable URL; leveldb store = map"],
    "models": dict({k: v for k, v in URL_MODELS.items() if not k.endswith("models.URLToString")},
                   **{"regexp.MustCompile": VM + "RegexpMustCompile", "(*regexp.Regexp).MatchString": VM + "RegexpMatchString"}),
    "stub_pkgs": DEFAULT_STUBS + [STATS],
    "harnesses": [
        {"pkg": PRE, "func": "VerifH_C05_children", "opts": {"map_order_all": False}, "covers": ["out-of-scope-child", "in-scope-child"]},
        {"pkg": "internal/pkg/config", "func": "VerifH_C05_crawl_config", "models": dict(DEFAULT_MODELS, **{
            Z + "/internal/pkg/config.readLocalExclusionFile": VM + "ReadLocalExclusionFile", Z + "/internal/pkg/utils.GetVersion": VM + "UtilsGetVersion",
            "regexp.MustCompile": VM + "RegexpMustCompile", "(*regexp.Regexp).MatchString": VM + "RegexpMatchString"}),
         "covers": ["operator-host-kept", "two-exclusion-files"]},
        {"pkg": PRE, "func": "VerifH_C05_seed", "opts": {"map_order_all": False}, "covers": ["out-of-scope-seed", "in-scope-seed", "seencheck-disabled"]},
    ],
}

STORE_MODELS = dict(DEFAULT_MODELS)
STORE_MODELS.update({k: v for k, v in URL_MODELS.items() if "leveldb" in k})
PROPS["C08"] = {
    "technique": 'execution of go/ssa over enumerated store states / item kinds / HQ answers; data concrete',
    "level": "model_checking",
    "explanation": "the real local seencheck (SeencheckItem/isSeen/seen over the FNV-keyed store) and the real crawl-HQ seencheck are executed from SSA for every prior record state of the URLs (absent / seen as seed / seen as asset), "
                   "every item kind (seed, redirect target, asset), every HQ answer (any subset unseen, or an error); models.URL.String() runs its real code (net/url query parsing, encodeQuery, URL.String) with only IDNA modelled; "
                   "in-tree uniqueness of fetched URLs is C11's de-duplication obligation.",
    "bounds": "2 URLs (one with an escaped query) x 3 prior record states x 3 tree shapes; HQ: 1-2 children x 4 answers x error; one check followed by one later check of the same URL",
    "outside": "hash collisions of the 64-bit FNV key; concurrent checks on one store; LevelDB itself (modelled as a map; natively a real store in a temp dir); the HQ server (natively an httptest stand-in)",
    "assumptions": COMMON_ASSUME + ["leveldb store = map (Get reflects earlier Sets)", "gocrawlhq.Client.Seencheck returns the sub-list of the sent URLs that HQ has not seen, or an error", "idna.ToASCII is the identity on ASCII hosts"],
    "models": STORE_MODELS,
    "stub_pkgs": DEFAULT_STUBS + [STATS],
    "harnesses": [
        {"pkg": "internal/pkg/preprocessor/seencheck", "func": "VerifH_C08_local", "opts": {"map_order_all": False}, "covers": ["skipped", "fetched", "promotion"]},
        {"pkg": HQ, "func": "VerifH_C08_hq", "opts": {"map_order_all": False}, "covers": ["hq-error", "hq-unseen", "hq-seen"]},
    ],
}
PROPS["C09"] = {
    "technique": 'symbolic execution of go/ssa: map iteration order as a decision variable; query texts as symbolic byte vectors with SMT verdicts',
    "level": "model_checking",
    "explanation": "models.URL.String()/URLToString/encodeQuery and net/url's query parsing run from their real SSA; Go's unspecified map iteration order is a decision variable, so the check asks whether ANY iteration order makes two URL objects "
                   "with the same text disagree or makes the parameters change order; the query canonicaliser (encodeQuery with net/url's QueryUnescape/QueryEscape from SSA) runs on a symbolic query text: idempotence, order/multiplicity against a reference written from the statement, no panic; the accept conditions of NormalizeURL (scheme, localhost/127.0.0.1, dotless host, fragment removal, quote trimming) are exercised in C05's harnesses.",
    "bounds": "6 query shapes (2-3 keys, repeated keys, valueless key, no query); all map iteration orders; every query text of <=5 bytes over {a 2 = & % + ;}; 15 URL shapes for NormalizeURL (good, quoted, fragment, relative, scheme-relative, upper-case, ftp, localhost, 127.0.0.1 with and without port, dotless, unparsable)",
    "outside": "idempotence of the non-query parts, WHATWG-conformant relative resolution, IDNA and percent-encoding behaviour: properties of ada-url (C++), net/url and x/net/idna, whose parsers are not encoded",
    "assumptions": COMMON_ASSUME + ["idna.ToASCII is the identity on ASCII hosts"],
    "harnesses": [
        {"pkg": MD, "func": "VerifH_C09_query_canonical", "replay_repeat": 400, "covers": ["several-keys"]},
        {"pkg": MD, "func": "VerifH_C09_encode_query", "opts": {"max_steps": 20000000, "unwind": 10000}, "covers": ["well-formed-query", "escapes-in-query"]},
        {"pkg": PRE, "func": "VerifH_C09_normalize", "opts": {"map_order_all": False}, "covers": ["accepted", "rejected", "relative", "fragment-stripped", "quotes-trimmed", "scheme-relative-under-https", "path-absolute-under-a-port"]},
    ],
    "models": {k: v for k, v in URL_MODELS.items() if not k.endswith("models.URLToString")},
    "stub_pkgs": DEFAULT_STUBS + [STATS],
}

ARCH_MODELS = dict(DEFAULT_MODELS)
ARCH_MODELS.update({
    "(*net/http.Client).Do": VM + "HTTPClientDo",
    "github.com/gabriel-vasile/mimetype.Detect": VM + "MIMEDetect",
    "(*github.com/gabriel-vasile/mimetype.MIME).Parent": VM + "MIMEParent",
    "(*github.com/gabriel-vasile/mimetype.MIME).Is": VM + "MIMEIs2",
    "(*github.com/gabriel-vasile/mimetype.MIME).String": VM + "MIMEString2",
    "github.com/CorentinB/warc/pkg/spooledtempfile.NewSpooledTempFile": VM + "NewSpooledTempFile",
    "net/http.NewRequest": VM + "HTTPNewRequest",
    Z + "/pkg/models.URLToString": VM + "URLToStringQ",
})
PROPS["C02"] = {
    "technique": 'symbolic execution of go/ssa (SMT for status/list/header), scripted bodies and servers enumerated',
    "level": "model_checking",
    "explanation": "Zeno's side of the WARC guarantee: (1) the discard hook chain the archiver installs, executed on symbolic status / header / --warc-discard-status lists, rejects exactly what the policy names; "
                   "(2) the real ProcessBody/copyWithTimeout*/io.Copy* code, on scripted bodies around the 2 KB sniff window, reads every successfully processed body to EOF and closes it on all paths; "
                   "(3) the real archive() retry loop against a scripted server archives an item only after a completely processed response, drains and closes every response it obtained and makes at most max-retry+1 attempts.",
    "bounds": "status 100..599 symbolic, discard list <=2 symbolic codes; bodies of <=3 reads with sizes {1,7,2048,2100}, read error or EOF, 3 MIME classes, spool failure; archive: max-retry 0..2, per attempt {200,404,503,429,403(+challenge),transport error}, body failure, sync/async WARC writing",
    "outside": "byte-exact, complete, individually decompressible WARC records and digests: CorentinB/warc (dialer tee, record builder, writer goroutines) - not encoded; that the library signals the feedback channel only after the record is on disk is its documented contract, assumed",
    "assumptions": COMMON_ASSUME + ["http.Client.Do is a scripted server; in synchronous mode a token arrives on the request's feedback channel once the body was read to EOF or closed",
                                    "mimetype.Detect returns one MIME object whose String/Is/Parent facts are chosen by the harness; spooled temp file = counter of bytes written, may fail"],
    "models": ARCH_MODELS,
    "stub_pkgs": DEFAULT_STUBS + [STATS],
    "harnesses": [
        {"pkg": "internal/pkg/archiver/discard", "func": "VerifH_C02_discard_policy", "covers": ["discarded", "kept", "cloudflare-challenge"]},
        {"pkg": AR, "func": "VerifH_C02_process_body", "opts": {"max_steps": 50000000, "unwind": 70000}, "covers": ["body-ok", "body-error", "spooled", "handed-to-postprocessing", "end-with-data"]},
        {"pkg": AR, "func": "VerifH_C02_archive", "opts": {"max_steps": 50000000, "unwind": 70000}, "covers": ["retries-exhausted", "archived", "sync-write-awaited"]},
        {"pkg": AR, "func": "VerifH_C02_archive_assets", "replay_tries": 3, "opts": {"max_steps": 50000000, "unwind": 70000}, "covers": ["sync-write-awaited", "two-assets"]},
    ],
}

PIPE_MODELS = dict(URL_MODELS)
PIPE_MODELS.update(POSTPROC_MODELS)
PIPE_MODELS.update(ARCH_MODELS)  # the sniffer-based MIME objects win over the C06 harness's single MIME
PIPE_MODELS.update({
    "(*net/http.Client).Do": VM + "SiteClientDo",
    EXT + "IsHTML": VM + "SiteIsHTML", EXT + "IsJSON": VM + "SiteIsJSON",
    EXT + "HTMLAssets": VM + "SiteHTMLAssets", EXT + "HTMLOutlinks": VM + "SiteHTMLOutlinks", EXT + "JSON": VM + "SiteJSON",
    EXT + "IsXML": VM + "False", EXT + "IsM3U8": VM + "False", EXT + "IsS3": VM + "False", EXT + "IsSitemapXML": VM + "False", EXT + "IsPDF": VM + "False",
    Z + "/pkg/models.URLToString": VM + "URLToStringQ",
})
PROPS["C01"] = {
    "technique": 'bounded model checking of go/ssa: the whole pipeline under an explicit scheduler over enumerated site shapes; data concrete',
    "level": "model_checking",
    "explanation": "the real pipeline - reactor, preprocessor, archiver, postprocessor and finisher, started through their Start functions and wired as controler.startPipeline wires them - carries one seed through a site whose shape is chosen "
                   "symbolically (root answers 200/301/404/always-503/one transport failure; up to 2 embedded assets drawn from: image, stylesheet with its own asset, a duplicate, an excluded host, a non-http scheme, a 404; an outlink), "
                   "for max-hops/max-retry/max-redirect in {0,1}, asset capture on/off, seencheck on/off, under every interleaving of the stage goroutines within the preemption bound. At quiescence: exactly one finish report, no pending node, "
                   "every in-scope URL fetched exactly once, out-of-scope ones never, outlinks queued as fresh seeds, reactor empty. Stage panics (consistency checks) and deadlocks are violations.",
    "bounds": "one seed, one worker per stage, <=2 assets (+1 asset of an asset, + redirecting assets), <=1 redirect, <=1 outlink; configuration bits above; no preemptive context switch (every order of goroutines at blocking points and every select arm choice is explored; one preemption per path did not finish within the budget), <=8 pipeline passes",
    "outside": "several seeds in flight at once (token/ownership discipline: C12), more than one worker per stage, the real HTTP/WARC/HTML layers (modelled as in C02/C05/C06), the local and HQ queues",
    "assumptions": COMMON_ASSUME + ["all stub contracts of C02, C05 and C06 (scripted site instead of a scripted server; extractor layer returns the site's link lists)"],
    "models": PIPE_MODELS,
    "stub_pkgs": DEFAULT_STUBS + [STATS],
    "harnesses": [
        {"pkg": "internal/verifpipe", "func": "VerifH_C01_one_seed", "replay_tries": 2, "opts": {"max_steps": 50000000, "unwind": 70000, "map_order_all": False, "no_preempt": True},
         "covers": ["finished", "asset-fetched", "asset-of-asset", "redirect-followed", "always-failing", "outlink-produced", "asset-redirect-followed", "asset-redirects-out-of-scope", "asset-fails-for-good", "asset-fails-once"]},
        {"pkg": "internal/verifpipe", "func": "VerifH_C01_two_seeds", "replay_tries": 2, "thorough_only": True, "opts": {"max_steps": 50000000, "unwind": 70000, "map_order_all": False, "max_wall_s": 3000, "preempt": 1},
         "covers": ["finished", "shared-asset", "asset-of-asset"]},
        {"pkg": "internal/verifpipe", "func": "VerifH_C01_one_seed_3assets", "replay_tries": 2, "thorough_only": True, "opts": {"max_steps": 50000000, "unwind": 70000, "map_order_all": False, "max_wall_s": 3000, "no_preempt": True},
         "covers": ["finished", "asset-fetched", "asset-of-asset"]},
    ],
}

C16_MODELS = dict(PIPE_MODELS)
PROPS["C16"] = {
    "technique": 'symbolic execution / schedule exploration of go/ssa (SMT for usage counts and statuses)',
    "level": "model_checking",
    "explanation": "the per-seed resource discipline, as step obligations so that 'N vs 4N seeds' follows by induction: every response body obtained by archive() is closed on every path and a spooled temp file is either handed to the item or closed - natively: removed from the temp dir - on every ProcessBody path (C02 harnesses); after postprocessItem the item holds no body and the body is closed; "
                   "closeBodies leaves no node of the tree holding a body (all depths, all statuses); the per-host limiter table never exceeds maxBuckets for any arrival order and usage counts (all map iteration orders); "
                   "at the end of a seed's life the reactor tracks nothing and all tokens are free (C01/C12 harnesses).",
    "bounds": "trees of <=3 levels / <=2 children; limiter: maxBuckets 1-2, <=2 pre-existing hosts with usage 1..1000 each healthy or failing (streak 1-2, lowered rate, penalty running or not), 2 arrivals from 3 hosts; plus the bounds of the C01, C02, C06 and C12 harnesses it reuses",
    "outside": "goroutine and file-descriptor counts of a live process, temporary files on a real file system, quiescence of the WARC writer: not encodable; empty host names and usage counts >= 2^31-1 (evictLFU cannot evict those; unreachable for http URLs)",
    "assumptions": COMMON_ASSUME + ["stub contracts of C01/C02/C06"],
    "models": C16_MODELS,
    "stub_pkgs": DEFAULT_STUBS + [STATS],
    "harnesses": [
        {"pkg": PP, "func": "VerifH_C16_close_bodies", "covers": ["three-levels", "body-closed"]},
        {"pkg": RL, "func": "VerifH_C16_bucket_bound", "opts": {"abstract_time": True}, "covers": ["table-full", "failing-host-in-table"]},
        {"pkg": AR, "func": "VerifH_C02_archive", "models": ARCH_MODELS, "opts": {"max_steps": 50000000, "unwind": 70000}, "covers": ["archived", "retries-exhausted"]},
        {"pkg": AR, "func": "VerifH_C02_process_body", "models": ARCH_MODELS, "opts": {"max_steps": 50000000, "unwind": 70000}, "covers": ["body-error", "spooled"]},
        {"pkg": PP, "func": "VerifH_C06_postprocess", "models": POSTPROC_MODELS, "opts": {"map_order_all": False}, "covers": ["body-released"]},
        {"pkg": "internal/verifpipe", "func": "VerifH_C01_one_seed", "replay_tries": 2, "opts": {"max_steps": 50000000, "unwind": 70000, "map_order_all": False, "no_preempt": True}, "covers": ["finished"]},
    ],
}

PROPS["C07"] = {
    "technique": 'execution of go/ssa incl. goquery/cascadia on enumerated DOMs; data concrete',
    "level": "model_checking",
    "explanation": "the real HTMLAssets/HTMLOutlinks/extractBaseTag/resolveURL code and the real goquery/cascadia selector engine run from SSA on DOM trees built node by node (which elements and attributes are present is chosen symbolically); "
                   "expected assets/outlinks come from the attribute table of the statement; natively the same DOM is rendered to text and parsed by the real x/net/html parser.",
    "bounds": "per page at most one each of img (src absolute / src relative / srcset with two candidates), script src (relative), link href (stylesheet / alternate), video src, audio src, source src / srcset (media harness: any combination), a href (dot-segment relative, query-only, scheme-relative); disable-html-tag in {none, img, script, link, video, audio, source, a, img+audio, video+source}; capture-alternate-pages on/off",
    "outside": "url(...) in style elements/attributes and script-text sniffing (regular expressions are opaque in the engine); real-world HTML parsing quirks (only the native replay goes through the parser); browser-conformant resolution beyond net/url.ResolveReference; base elements",
    "assumptions": COMMON_ASSUME + ["regexp objects are opaque: regex-derived assets are neither demanded nor excluded"],
    "stub_pkgs": DEFAULT_STUBS + [STATS],
    "benign_zero_globals": {
        "golang.org/x/net/html.voidElements": "only read by html.Render (goquery.OuterHtml of script elements), whose output goes to opaque regular expressions only",
        "golang.org/x/net/html.plaintextAbort": "same",
    },
    "harnesses": [
        {"pkg": EX, "func": "VerifH_C07_attributes", "opts": {"max_steps": 50000000, "unwind": 100000, "map_order_all": False},
         "covers": ["asset-expected", "srcset", "relative-script", "alternate", "tag-disabled", "anchor", "anchor-disabled", "query-only-anchor"]},
        {"pkg": EX, "func": "VerifH_C07_media", "opts": {"max_steps": 50000000, "unwind": 100000, "map_order_all": False},
         "covers": ["asset-expected", "audio", "source-srcset", "tag-disabled", "anchor"]},
    ],
}


# the stage harnesses of C03 also decide C14's "a paused worker takes no work" for the real stage workers
for _h in PROPS["C03"]["harnesses"]:
    if _h["func"] in ("VerifH_C03_archiver_workers", "VerifH_C03_postprocessor_stop", "VerifH_C03_preprocessor_stop"):
        _h2 = dict(_h)
        _h2["covers"] = ["work-arrives-while-paused", "stopped"]
        PROPS["C14"]["harnesses"].append(_h2)
for _h in PROPS["C03"]["harnesses"]:
    if _h["func"] in ("VerifH_C03_archiver_workers", "VerifH_C03_postprocessor_stop", "VerifH_C03_preprocessor_stop") and "work-arrives-while-paused" not in _h["covers"]:
        _h["covers"] = _h["covers"] + ["work-arrives-while-paused"]


# what happens to the extracted lists (every asset a child, every anchor an outlink) is part of C07 too
PROPS["C07"]["harnesses"].append({"pkg": PP, "func": "VerifH_C06_postprocess", "models": POSTPROC_MODELS, "opts": {"map_order_all": False},
                                  "covers": ["asset-expected", "outlink-expected"]})
PROPS["C07"]["bounds"] += "; plus the C06 post-processing harness (2 assets, one of them under the page's own URL, <=2 anchors)"


# the retry bound of archive() for small and large budgets belongs to C06 (and is run by C02 as well)
_rb = {"pkg": AR, "func": "VerifH_C06_retry_bound", "models": ARCH_MODELS, "replay_timeout_s": 200, "opts": {"max_steps": 50000000, "unwind": 70000},
       "covers": ["retries-exhausted", "large-retry-budget"]}
PROPS["C06"]["harnesses"].append(dict(_rb))
PROPS["C06"]["bounds"] += "; archive() retry loop: max-retry in {0,1,3,6,7} with every attempt failing as a transport error, 503 or 429"


# the seencheck step where the preprocessor applies it (real preprocess(), local store)
PROPS["C08"]["harnesses"].append({"pkg": PRE, "func": "VerifH_C08_preprocess", "models": {k: v for k, v in URL_MODELS.items() if not k.endswith("models.URLToString")},
                                  "opts": {"map_order_all": False}, "covers": ["seen-asset", "new-asset", "two-seen-assets-in-a-row"]})
PROPS["C08"]["bounds"] += "; preprocess(): a page with three assets of which any subset was recorded by an earlier page"


# a node left pending by post-processing means a seed that never finishes: the C06 step harness also decides that clause of C01
PROPS["C01"]["harnesses"].append({"pkg": PP, "func": "VerifH_C06_postprocess", "models": POSTPROC_MODELS, "opts": {"map_order_all": False},
                                  "covers": ["redirect-without-location", "redirect-followed"]})
