// Package verifrt is the harness vocabulary. This is the symbolic-build variant:
// every function is intercepted by the engine (/verif/engine); the bodies never run.
package verifrt

func sym() { panic("verifrt: symbolic build executed natively") }

func Int(name string) int               { sym(); return 0 }
func Int64(name string) int64           { sym(); return 0 }
func Int32(name string) int32           { sym(); return 0 }
func Uint64(name string) uint64         { sym(); return 0 }
func Uint32(name string) uint32         { sym(); return 0 }
func Uint8(name string) uint8           { sym(); return 0 }
func Bool(name string) bool             { sym(); return false }
func Float64(name string) float64       { sym(); return 0 }
func String(name string, maxLen int) string { sym(); return "" }
func Choice(name string, n int) int     { sym(); return 0 }
func Assume(c bool)                     { sym() }
func Assert(c bool, label string)       { sym() }
func Cover(label string)                { sym() }
func CoverIf(c bool, label string)      { sym() }
func Unwind(n int)                      { sym() }
func Preemptions(n int)                 { sym() }
func EnvTicks(n int)                    { sym() }
func MapOrderAll(on bool)               { sym() }
func Symbolic() bool                    { sym(); return true }
func Note(s string)                     { sym() }
func Daemon()                           { sym() }
func Quiesce()                          { sym() }
func NumBlocked() int                   { sym(); return 0 }
func WouldBlock(f func()) bool          { sym(); return false }
func Go(f func())                       { sym() }
func IsNaN(f float64) bool              { sym(); return false }
func IsInf(f float64) bool              { sym(); return false }
func All(c ...bool) bool                { sym(); return false }
func Any(c ...bool) bool                { sym(); return false }
func Implies(a, b bool) bool            { sym(); return false }
func IteF(c bool, a, b float64) float64 { sym(); return 0 }
func IteI(c bool, a, b int64) int64     { sym(); return 0 }
func IntRange(name string, lo, hi int64) int64 { sym(); return 0 }
func ResetReplay()                       { sym() }
func Settle()                            { sym() }
func Tag(s string)                       { sym() }

// ExpireDeadline lets the nearest pending deadline of a context expire (symbolic run only; used by library models).
func ExpireDeadline(ctx interface{}) bool { sym(); return false }

// WakeSleepers lets time pass: goroutines inside time.Sleep wake up (symbolic run, sleep_env mode); natively it waits.
func WakeSleepers() { sym() }

// EnvTicksEach lets every timer of the program fire n times (symbolic run); natively timers fire by themselves.
func EnvTicksEach(n int) { sym() }
