// Package verifrt, native-build variant: values come from the solver's model
// (JSON file named by $VERIF_MODEL); the harness then runs on the real, natively
// compiled code. A failed assertion prints VERIF-ASSERT-FAILED and exits 3.
package verifrt

import (
	"encoding/hex"
	"encoding/json"
	"fmt"
	"math"
	"os"
	"runtime"
	"strconv"
	"sync"
	"time"
)

var (
	mu     sync.Mutex
	model  map[string]json.RawMessage
	counts = map[string]int{}
	loaded bool
)

func load() {
	if loaded {
		return
	}
	loaded = true
	model = map[string]json.RawMessage{}
	p := os.Getenv("VERIF_MODEL")
	if p == "" {
		return
	}
	b, err := os.ReadFile(p)
	if err != nil {
		fmt.Println("VERIF-REPLAY-ERROR cannot read model:", err)
		os.Exit(5)
	}
	if err := json.Unmarshal(b, &model); err != nil {
		fmt.Println("VERIF-REPLAY-ERROR cannot parse model:", err)
		os.Exit(5)
	}
}

func get(name string) (json.RawMessage, bool) {
	mu.Lock()
	defer mu.Unlock()
	load()
	n := counts[name]
	counts[name] = n + 1
	if n > 0 {
		name = fmt.Sprintf("%s#%d", name, n)
	}
	v, ok := model[name]
	return v, ok
}

func getStr(name string) (string, bool) {
	v, ok := get(name)
	if !ok {
		return "", false
	}
	var s string
	if json.Unmarshal(v, &s) != nil {
		return "", false
	}
	return s, true
}

func Int64(name string) int64 {
	s, ok := getStr(name)
	if !ok {
		return 0
	}
	v, _ := strconv.ParseInt(s, 10, 64)
	return v
}
func Int(name string) int     { return int(Int64(name)) }
func Int32(name string) int32 { return int32(Int64(name)) }
func Uint64(name string) uint64 {
	s, ok := getStr(name)
	if !ok {
		return 0
	}
	v, _ := strconv.ParseUint(s, 10, 64)
	return v
}
func Uint32(name string) uint32 { return uint32(Uint64(name)) }
func Uint8(name string) uint8   { return uint8(Uint64(name)) }
func Bool(name string) bool {
	v, ok := get(name)
	if !ok {
		return false
	}
	var b bool
	json.Unmarshal(v, &b)
	return b
}
func Float64(name string) float64 {
	s, ok := getStr(name)
	if !ok {
		return 0
	}
	u, _ := strconv.ParseUint(s[2:], 16, 64)
	return math.Float64frombits(u)
}
func String(name string, maxLen int) string {
	v, ok := get(name)
	if !ok {
		return ""
	}
	var m struct {
		Hex string `json:"hex"`
	}
	json.Unmarshal(v, &m)
	b, _ := hex.DecodeString(m.Hex)
	return string(b)
}
func Choice(name string, n int) int { return int(Int64(name)) }

func Assume(c bool) {
	if !c {
		fmt.Println("VERIF-ASSUME-FAILED")
		os.Exit(4)
	}
}
func Assert(c bool, label string) {
	if !c {
		_, file, line, _ := runtime.Caller(1)
		fmt.Printf("VERIF-ASSERT-FAILED label=%q at %s:%d\n", label, file, line)
		os.Exit(3)
	}
}
func Cover(label string)           {}
func CoverIf(c bool, label string) {}
func Unwind(n int)                 {}
func Preemptions(n int)            {}
func EnvTicks(n int)               {}
func MapOrderAll(on bool)          {}
func Symbolic() bool               { return false }
func Note(s string)                {}
func Daemon()                      {}
func Quiesce()                     { time.Sleep(300 * time.Millisecond) }
func NumBlocked() int              { return 0 }
func blockTimeout() time.Duration {
	if s := os.Getenv("VERIF_BLOCK_MS"); s != "" {
		if n, err := strconv.Atoi(s); err == nil {
			return time.Duration(n) * time.Millisecond
		}
	}
	return 1500 * time.Millisecond
}
func WouldBlock(f func()) bool {
	done := make(chan struct{})
	go func() { defer close(done); f() }()
	select {
	case <-done:
		return false
	case <-time.After(blockTimeout()):
		return true
	}
}
func Go(f func())          { go f() }
func IsNaN(f float64) bool { return math.IsNaN(f) }
func IsInf(f float64) bool { return math.IsInf(f, 0) }

// All/Any/Implies/Ite* are the non-short-circuit forms (one SMT term, no path fork).
func All(c ...bool) bool {
	for _, x := range c {
		if !x {
			return false
		}
	}
	return true
}
func Any(c ...bool) bool {
	for _, x := range c {
		if x {
			return true
		}
	}
	return false
}
func Implies(a, b bool) bool { return !a || b }
func IteF(c bool, a, b float64) float64 {
	if c {
		return a
	}
	return b
}
func IteI(c bool, a, b int64) int64 {
	if c {
		return a
	}
	return b
}

// IntRange is Int64 with the stated inclusive range (assumed).
func IntRange(name string, lo, hi int64) int64 {
	v := Int64(name)
	Assume(v >= lo && v <= hi)
	return v
}

// ResetReplay restarts the per-name counters so the harness can be run again in the same process (stress replay).
func ResetReplay() {
	mu.Lock()
	counts = map[string]int{}
	mu.Unlock()
}

// Settle lets the other goroutines run until they block (call-order replay granularity). It is a no-op in the
// symbolic run, where every interleaving is explored anyway. VERIF_SETTLE=0 disables it (the replay driver alternates).
func Settle() {
	if os.Getenv("VERIF_SETTLE") == "0" {
		return
	}
	time.Sleep(30 * time.Millisecond)
}

// Tag names the scenario a harness is in; the engine appends it to the labels of panics, deadlocks and data races.
func Tag(s string) {}

// ExpireDeadline lets the nearest pending deadline of a context expire (symbolic run only; used by library models).
func ExpireDeadline(ctx interface{}) bool { return false }

// WakeSleepers lets time pass: goroutines inside time.Sleep wake up (symbolic run, sleep_env mode); natively it waits.
func WakeSleepers() { time.Sleep(300 * time.Millisecond) }

// EnvTicksEach lets every timer of the program fire n times (symbolic run); natively timers fire by themselves.
func EnvTicksEach(n int) {}
