//go:build verif

package verifmodel

import (
	"io"

	"github.com/grafov/m3u8"
)

// ---- grafov/m3u8 decoder: hands back the playlist the harness prepared (contract: returns a well-typed
// playlist of the announced kind, or an error; assumed not to panic) ----

var (
	M3U8Playlist m3u8.Playlist
	M3U8Type     m3u8.ListType
	M3U8Err      error
)

func M3U8DecodeFrom(r io.Reader, strict bool) (m3u8.Playlist, m3u8.ListType, error) {
	return M3U8Playlist, M3U8Type, M3U8Err
}

// ---- encoding/json: Decode/Unmarshal into *interface{} deliver the value tree the harness prepared ----

var (
	JSONNext     interface{}
	JSONErr      error
	JSONEmbedded = map[string]interface{}{}
)

func JSONDecoderDecode(dec interface{}, v interface{}) error {
	if JSONErr != nil {
		return JSONErr
	}
	p, ok := v.(*interface{})
	if !ok {
		panic("verifmodel: json Decode into an unsupported target")
	}
	*p = JSONNext
	return nil
}

type jsonSyntaxError struct{}

func (jsonSyntaxError) Error() string { return "verifmodel: invalid JSON" }

// JSONUnmarshal decodes exactly the embedded documents the harness registered; anything else is a syntax error.
func JSONUnmarshal(data []byte, v interface{}) error {
	p, ok := v.(*interface{})
	if !ok {
		panic("verifmodel: json Unmarshal into an unsupported target")
	}
	val, found := JSONEmbedded[string(data)]
	if !found {
		return jsonSyntaxError{}
	}
	*p = val
	return nil
}
