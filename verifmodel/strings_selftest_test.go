//go:build verif

package verifmodel

import (
	"reflect"
	"strings"
	"testing"
)

func eqSS(a, b []string) bool {
	if len(a) == 0 && len(b) == 0 {
		return true
	}
	return reflect.DeepEqual(a, b)
}

func allStrings(alpha string, maxLen int) []string {
	out := []string{""}
	prev := []string{""}
	for l := 1; l <= maxLen; l++ {
		var cur []string
		for _, p := range prev {
			for i := 0; i < len(alpha); i++ {
				cur = append(cur, p+alpha[i:i+1])
			}
		}
		out = append(out, cur...)
		prev = cur
	}
	return out
}

// TestStringModels compares every model with the real function on all strings up to length 5 over {a , ;}
// (and separators/cutsets up to length 2).
func TestStringModels(t *testing.T) {
	ss := allStrings("a, ;", 5)
	seps := allStrings("a, ;", 2)
	n := 0
	for _, s := range ss {
		if StringsTrimSpace(s) != strings.TrimSpace(s) {
			t.Fatalf("TrimSpace(%q)", s)
		}
		if !eqSS(StringsFields(s), strings.Fields(s)) {
			t.Fatalf("Fields(%q)", s)
		}
		for _, sep := range seps {
			n++
			if StringsIndex(s, sep) != strings.Index(s, sep) {
				t.Fatalf("Index(%q,%q)", s, sep)
			}
			if StringsLastIndex(s, sep) != strings.LastIndex(s, sep) {
				t.Fatalf("LastIndex(%q,%q)", s, sep)
			}
			if StringsCount(s, sep) != strings.Count(s, sep) {
				t.Fatalf("Count(%q,%q) = %d want %d", s, sep, StringsCount(s, sep), strings.Count(s, sep))
			}
			if !eqSS(StringsSplit(s, sep), strings.Split(s, sep)) {
				t.Fatalf("Split(%q,%q) = %q want %q", s, sep, StringsSplit(s, sep), strings.Split(s, sep))
			}
			for k := -1; k <= 3; k++ {
				if !eqSS(StringsSplitN(s, sep, k), strings.SplitN(s, sep, k)) {
					t.Fatalf("SplitN(%q,%q,%d) = %q want %q", s, sep, k, StringsSplitN(s, sep, k), strings.SplitN(s, sep, k))
				}
				if !eqSS(StringsSplitAfterN(s, sep, k), strings.SplitAfterN(s, sep, k)) {
					t.Fatalf("SplitAfterN(%q,%q,%d)", s, sep, k)
				}
				if StringsReplace(s, sep, "x", k) != strings.Replace(s, sep, "x", k) {
					t.Fatalf("Replace(%q,%q,x,%d) = %q want %q", s, sep, k, StringsReplace(s, sep, "x", k), strings.Replace(s, sep, "x", k))
				}
			}
			if StringsTrim(s, sep) != strings.Trim(s, sep) || StringsTrimLeft(s, sep) != strings.TrimLeft(s, sep) || StringsTrimRight(s, sep) != strings.TrimRight(s, sep) {
				t.Fatalf("Trim*(%q,%q)", s, sep)
			}
			if StringsTrimPrefix(s, sep) != strings.TrimPrefix(s, sep) || StringsTrimSuffix(s, sep) != strings.TrimSuffix(s, sep) {
				t.Fatalf("TrimPrefix/Suffix(%q,%q)", s, sep)
			}
			a1, b1, c1 := StringsCut(s, sep)
			a2, b2, c2 := strings.Cut(s, sep)
			if a1 != a2 || b1 != b2 || c1 != c2 {
				t.Fatalf("Cut(%q,%q)", s, sep)
			}
			if StringsContainsAny(s, sep) != strings.ContainsAny(s, sep) {
				t.Fatalf("ContainsAny(%q,%q)", s, sep)
			}
			if StringsReplaceAll(s, sep, "zz") != strings.ReplaceAll(s, sep, "zz") {
				t.Fatalf("ReplaceAll(%q,%q)", s, sep)
			}
		}
		for _, c := range []byte("a, ;") {
			if StringsLastIndexByte(s, c) != strings.LastIndexByte(s, c) {
				t.Fatalf("LastIndexByte(%q,%q)", s, c)
			}
		}
		for k := 0; k <= 3; k++ {
			if StringsRepeat(s, k) != strings.Repeat(s, k) {
				t.Fatalf("Repeat(%q,%d)", s, k)
			}
		}
		if StringsJoin(strings.Split(s, ","), ";") != strings.Join(strings.Split(s, ","), ";") {
			t.Fatalf("Join(%q)", s)
		}
	}
	t.Logf("compared %d (string, separator) pairs", n)
}
