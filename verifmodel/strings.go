//go:build verif

package verifmodel

// Plain-Go models of the strings functions Zeno's extractors use. They are executed symbolically by the
// engine in place of the std implementations (which bottom out in assembly: internal/bytealg). Each is
// byte-exact for ASCII input; the differential self-test (strings_test.go) compares them with the real
// functions on every string up to length 5 over a small alphabet.

func indexAt(s, sep string, from int) int {
	n, m := len(s), len(sep)
	for i := from; i+m <= n; i++ {
		if s[i:i+m] == sep {
			return i
		}
	}
	return -1
}

func StringsIndex(s, sep string) int { return indexAt(s, sep, 0) }

func StringsLastIndexByte(s string, c byte) int {
	for i := len(s) - 1; i >= 0; i-- {
		if s[i] == c {
			return i
		}
	}
	return -1
}

func StringsLastIndex(s, sep string) int {
	n, m := len(s), len(sep)
	for i := n - m; i >= 0; i-- {
		if s[i:i+m] == sep {
			return i
		}
	}
	return -1
}

func StringsCount(s, sep string) int {
	if len(sep) == 0 {
		return len(s) + 1 // ASCII: one more than the number of bytes
	}
	n := 0
	i := 0
	for {
		j := indexAt(s, sep, i)
		if j < 0 {
			return n
		}
		n++
		i = j + len(sep)
	}
}

func StringsRepeat(s string, count int) string {
	if count < 0 {
		panic("strings: negative Repeat count")
	}
	r := ""
	for i := 0; i < count; i++ {
		r += s
	}
	return r
}

func genSplit(s, sep string, sepSave, n int) []string {
	if n == 0 {
		return nil
	}
	if sep == "" {
		// explode into single bytes (ASCII)
		var out []string
		for i := 0; i < len(s); i++ {
			if n > 0 && len(out) == n-1 {
				out = append(out, s[i:])
				return out
			}
			out = append(out, s[i:i+1])
		}
		return out
	}
	var out []string
	i := 0
	for n < 0 || len(out) < n-1 {
		j := indexAt(s, sep, i)
		if j < 0 {
			break
		}
		out = append(out, s[i:j+sepSave])
		i = j + len(sep)
	}
	out = append(out, s[i:])
	return out
}

func StringsSplit(s, sep string) []string             { return genSplit(s, sep, 0, -1) }
func StringsSplitN(s, sep string, n int) []string     { return genSplit(s, sep, 0, n) }
func StringsSplitAfterN(s, sep string, n int) []string { return genSplit(s, sep, len(sep), n) }

func inSet(c byte, cutset string) bool {
	for i := 0; i < len(cutset); i++ {
		if cutset[i] == c {
			return true
		}
	}
	return false
}

func StringsTrim(s, cutset string) string {
	i, j := 0, len(s)
	for i < j && inSet(s[i], cutset) {
		i++
	}
	for j > i && inSet(s[j-1], cutset) {
		j--
	}
	return s[i:j]
}

func StringsTrimLeft(s, cutset string) string {
	i := 0
	for i < len(s) && inSet(s[i], cutset) {
		i++
	}
	return s[i:]
}

func StringsTrimRight(s, cutset string) string {
	j := len(s)
	for j > 0 && inSet(s[j-1], cutset) {
		j--
	}
	return s[:j]
}

func isSpace(c byte) bool {
	return c == ' ' || c == '\t' || c == '\n' || c == '\v' || c == '\f' || c == '\r'
}

func StringsTrimSpace(s string) string {
	i, j := 0, len(s)
	for i < j && isSpace(s[i]) {
		i++
	}
	for j > i && isSpace(s[j-1]) {
		j--
	}
	return s[i:j]
}

func StringsTrimPrefix(s, p string) string {
	if len(s) >= len(p) && s[:len(p)] == p {
		return s[len(p):]
	}
	return s
}

func StringsTrimSuffix(s, p string) string {
	if len(s) >= len(p) && s[len(s)-len(p):] == p {
		return s[:len(s)-len(p)]
	}
	return s
}

func StringsReplace(s, old, new string, n int) string {
	if old == new || n == 0 {
		return s
	}
	if old == "" {
		// insert new before every byte (ASCII) and at the end
		out := ""
		k := 0
		for i := 0; i < len(s); i++ {
			if n < 0 || k < n {
				out += new
				k++
			}
			out += s[i : i+1]
		}
		if n < 0 || k < n {
			out += new
		}
		return out
	}
	out := ""
	i := 0
	k := 0
	for n < 0 || k < n {
		j := indexAt(s, old, i)
		if j < 0 {
			break
		}
		out += s[i:j] + new
		i = j + len(old)
		k++
	}
	return out + s[i:]
}

func StringsReplaceAll(s, old, new string) string { return StringsReplace(s, old, new, -1) }

func StringsCut(s, sep string) (string, string, bool) {
	if i := indexAt(s, sep, 0); i >= 0 {
		return s[:i], s[i+len(sep):], true
	}
	return s, "", false
}

func StringsJoin(elems []string, sep string) string {
	r := ""
	for i, e := range elems {
		if i > 0 {
			r += sep
		}
		r += e
	}
	return r
}

func StringsContainsAny(s, chars string) bool {
	for i := 0; i < len(s); i++ {
		if inSet(s[i], chars) {
			return true
		}
	}
	return false
}

func StringsFields(s string) []string {
	var out []string
	i := 0
	for i < len(s) {
		for i < len(s) && isSpace(s[i]) {
			i++
		}
		j := i
		for j < len(s) && !isSpace(s[j]) {
			j++
		}
		if j > i {
			out = append(out, s[i:j])
		}
		i = j
	}
	return out
}
