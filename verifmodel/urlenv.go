//go:build verif

package verifmodel

import (
	"errors"
	"io"
	"net/http"
	"net/url"
	"regexp"
	"syscall"

	"github.com/ada-url/goada"
	"github.com/internetarchive/Zeno/internal/pkg/utils"
	"github.com/philippgille/gokv/leveldb"
)

// ---- ada-url (C++ via cgo): the parse outcome of each input is given by a table the harness fills with the facts of
// the concrete URLs it uses (protocol, hostname, href with and without fragment). The native replay runs the real ada
// on the same inputs, so a wrong table entry shows up as a cover witness that does not replay. ----

type AdaOutcome struct {
	Err        bool
	Protocol   string // "http:" ...
	Hostname   string
	Host       string // hostname[:port]; empty = same as Hostname
	Href       string // without fragment
	HrefWithFr string // with fragment (== Href when the input has none)
}

type adaState struct {
	o           AdaOutcome
	hashCleared bool
	freed       bool
}

var (
	AdaTable  = map[string]AdaOutcome{} // key: input, or input + "|" + base
	adaStates = map[*goada.Url]*adaState{}
	ErrAda    = errors.New("verifmodel: ada: invalid URL")
)

func adaNew(key string) (*goada.Url, error) {
	o, ok := AdaTable[key]
	if !ok {
		panic("verifmodel: ada outcome not registered for " + key)
	}
	if o.Err {
		return nil, ErrAda
	}
	u := new(goada.Url)
	adaStates[u] = &adaState{o: o}
	return u, nil
}

func AdaNew(s string) (*goada.Url, error)               { return adaNew(s) }
func AdaNewWithBase(s, base string) (*goada.Url, error) { return adaNew(s + "|" + base) }
func AdaSetHash(u *goada.Url, h string) {
	if h == "" {
		adaStates[u].hashCleared = true
	}
}
func AdaProtocol(u *goada.Url) string { return adaStates[u].o.Protocol }
func AdaHostname(u *goada.Url) string { return adaStates[u].o.Hostname }
func AdaHost(u *goada.Url) string {
	if h := adaStates[u].o.Host; h != "" {
		return h
	}
	return adaStates[u].o.Hostname
}
func AdaHref(u *goada.Url) string {
	st := adaStates[u]
	if st.hashCleared {
		return st.o.Href
	}
	return st.o.HrefWithFr
}
func AdaFree(u *goada.Url) { adaStates[u].freed = true }

// ---- net/http.NewRequest: a request object for a parsable URL ----

func HTTPNewRequest(method, urlStr string, body io.Reader) (*http.Request, error) {
	u, err := url.Parse(urlStr)
	if err != nil {
		return nil, err
	}
	return &http.Request{Method: method, URL: u, Header: make(http.Header), Host: u.Host}, nil
}

// ---- gokv/leveldb store: a map from key to string value; Get reflects earlier Sets ----

var (
	SeenStore    = map[string]string{}
	SeenStoreLog []string // keys in the order they were Set
)

func LevelGet(s leveldb.Store, k string, v any) (bool, error) {
	val, ok := SeenStore[k]
	if !ok {
		return false, nil
	}
	*(v.(*string)) = val
	return true, nil
}

func LevelSet(s leveldb.Store, k string, v any) error {
	SeenStore[k] = v.(string)
	SeenStoreLog = append(SeenStoreLog, k)
	return nil
}

func LevelClose(s leveldb.Store) error { return nil }

func LevelNewStore(o leveldb.Options) (leveldb.Store, error) { return leveldb.Store{}, nil }

// URLToStringQ models pkg/models.URLToString for plain ASCII URLs, keeping the raw query untouched.
func URLToStringQ(u *url.URL) string {
	s := u.Scheme + "://" + u.Host + u.Path
	if u.RawQuery != "" {
		s += "?" + u.RawQuery
	}
	return s
}

// IdnaToASCII models x/net/idna.ToASCII on the ASCII host names the harnesses use (identity).
func IdnaToASCII(s string) (string, error) { return s, nil }

// Statfs models syscall.Statfs: a 100 GiB volume with 50 GiB available (the harness moves the threshold, not the volume).
func Statfs(path string, buf *syscall.Statfs_t) error {
	buf.Bsize = 4096
	buf.Blocks = (100 << 30) / 4096
	buf.Bavail = (50 << 30) / 4096
	buf.Bfree = buf.Bavail
	return nil
}

// WARCQueueSize models archiver.GetWARCWritingQueueSize: the number of records waiting to be written, as scripted.
var WARCQueueLen int

func WARCQueueSize() int { return WARCQueueLen }

// ---- regular expressions made of literal text (the exclusion file of the C05 harness) ----
// Contract: the harness only compiles patterns without metacharacters, for which MatchString is substring search.

var RegexpPatterns = map[*regexp.Regexp]string{}

func RegexpMustCompile(pattern string) *regexp.Regexp {
	r := new(regexp.Regexp)
	RegexpPatterns[r] = pattern
	return r
}

func RegexpMatchString(r *regexp.Regexp, s string) bool {
	p, ok := RegexpPatterns[r]
	if !ok {
		return false // a pattern compiled elsewhere (opaque): as before, never matches
	}
	for i := 0; i+len(p) <= len(s); i++ {
		if s[i:i+len(p)] == p {
			return true
		}
	}
	return false
}

// ---- exclusion files (config.readLocalExclusionFile): one pattern per line, as scripted by the harness ----

var ExclusionFiles = map[string][]string{}

func ReadLocalExclusionFile(file string) ([]string, error) {
	lines, ok := ExclusionFiles[file]
	if !ok {
		return nil, errors.New("verifmodel: no such exclusion file")
	}
	return append([]string(nil), lines...), nil
}

// GetVersion models utils.GetVersion (build information of the running binary).
func UtilsGetVersion() utils.Version { return utils.Version{Version: "verif", WarcVersion: "verif"} }
