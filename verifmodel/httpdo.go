//go:build verif

package verifmodel

import (
	"errors"
	"io"
	"net/http"
	"runtime"
	"sync"
	"sync/atomic"

	"github.com/CorentinB/warc/pkg/spooledtempfile"
	"github.com/gabriel-vasile/mimetype"
	"github.com/internetarchive/Zeno/internal/verifrt"
)

// ---- the WARC-writing HTTP client's Do (http.Client.Do on the embedded client): a scripted server. Contract assumed
// (documented behaviour of CorentinB/warc in synchronous mode): the record of a response is written, and a token is
// delivered on the request's "feedback" channel, once the response body has been read to EOF or closed. ----

type DoOutcome struct {
	Err         bool // transport error
	Status      int
	Header      http.Header
	Chunks      []int  // sizes of the successive body reads before EOF
	ReadErr     bool   // the body fails after the chunks instead of reaching EOF
	EndWithData bool   // the final EOF / error is returned by the SAME Read call that delivers the last chunk (io.Reader allows it)
	Prefix      string // first bytes of the body (selects the MIME type the real sniffer sees in the native replay)
}

type Body struct {
	chunks      []int
	readErr     bool
	pos         int
	off         int
	EOF         bool
	Closed      int
	Failed      bool
	feedback    chan struct{}
	signaled    bool
	Reads       int
	prefix      string
	sent        int
	endWithData bool
	URL         string      // the request this body answers
	Written     atomic.Bool // the response's record is in the WARC
}

var doMu sync.Mutex

var (
	DoScript    []DoOutcome
	DoCalls     int
	DoBodies    []*Body
	ErrNet      = errors.New("verifmodel: transport error")
	ErrBodyRead = errors.New("verifmodel: body read error")
)

// DelayedWrite: the WARC writer runs in its own goroutine: the record is written (Written) and the feedback token
// delivered some time after the body has been read, not at once.
var DelayedWrite bool

func (b *Body) signal() {
	if b.signaled {
		return
	}
	b.signaled = true
	deliver := func() {
		b.Written.Store(true)
		if b.feedback != nil {
			select {
			case b.feedback <- struct{}{}:
			default:
			}
		}
	}
	if DelayedWrite {
		verifrt.Go(deliver)
		return
	}
	deliver()
}

func (b *Body) Read(p []byte) (int, error) {
	b.Reads++
	if b.Closed > 0 {
		return 0, errors.New("verifmodel: read on closed body")
	}
	if b.pos >= len(b.chunks) {
		if b.readErr {
			b.Failed = true
			return 0, ErrBodyRead
		}
		b.EOF = true
		b.signal()
		return 0, io.EOF
	}
	n := b.chunks[b.pos] - b.off
	if n > len(p) {
		n = len(p)
	}
	for i := 0; i < n; i++ {
		if b.sent < len(b.prefix) {
			p[i] = b.prefix[b.sent]
		} else {
			p[i] = 'x'
		}
		b.sent++
	}
	b.off += n
	if b.off >= b.chunks[b.pos] {
		b.pos++
		b.off = 0
	}
	if b.endWithData && b.pos >= len(b.chunks) {
		// the last bytes come together with the end of the stream
		if b.readErr {
			b.Failed = true
			return n, ErrBodyRead
		}
		b.EOF = true
		b.signal()
		return n, io.EOF
	}
	return n, nil
}

func (b *Body) Close() error {
	b.Closed++
	b.signal()
	return nil
}

func HTTPClientDo(c *http.Client, req *http.Request) (*http.Response, error) {
	runtime.Gosched() // network I/O: every interleaving with the other goroutines is possible here
	doMu.Lock()       // (the model's own bookkeeping; requests may come from concurrent fetches)
	i := DoCalls
	DoCalls++
	if i >= len(DoScript) {
		panic("verifmodel: more requests than the harness scripted")
	}
	o := DoScript[i]
	if o.Err {
		doMu.Unlock()
		return nil, ErrNet
	}
	var fb chan struct{}
	if v := req.Context().Value("feedback"); v != nil {
		fb = v.(chan struct{})
	}
	b := &Body{chunks: o.Chunks, readErr: o.ReadErr, feedback: fb, prefix: o.Prefix, URL: req.URL.String(), endWithData: o.EndWithData}
	DoBodies = append(DoBodies, b)
	doMu.Unlock()
	h := o.Header
	if h == nil {
		h = http.Header{}
	}
	return &http.Response{StatusCode: o.Status, Header: h, Body: b, Request: req}, nil
}

// ---- mimetype: the sniffer looks at the first byte ('<' html, '{' json, '%' pdf, anything else binary) - the same
// classes the real sniffer yields for the bodies the harnesses serve ("<html>...", "{...", "%PDF-", NUL bytes) ----

var (
	mimeHTML = new(mimetype.MIME)
	mimeJSON = new(mimetype.MIME)
	mimePDF  = new(mimetype.MIME)
	mimeBin  = new(mimetype.MIME)
	mimeText = new(mimetype.MIME) // text/plain, parent of html and json
)

func MIMEDetect(in []byte) *mimetype.MIME {
	if len(in) == 0 {
		return mimeText
	}
	switch in[0] {
	case '<':
		return mimeHTML
	case '{', '[':
		return mimeJSON
	case '%':
		return mimePDF
	case 0:
		return mimeBin
	}
	return mimeText
}

func MIMEParent(m *mimetype.MIME) *mimetype.MIME {
	if m == mimeHTML || m == mimeJSON {
		return mimeText
	}
	if m == mimePDF {
		return mimeBin
	}
	return nil
}

func MIMEString2(m *mimetype.MIME) string {
	switch m {
	case mimeHTML:
		return "text/html; charset=utf-8"
	case mimeJSON:
		return "application/json"
	case mimePDF:
		return "application/pdf"
	case mimeBin:
		return "application/octet-stream"
	case mimeText:
		return "text/plain; charset=utf-8"
	}
	return MIME // objects not created by the sniffer model (C06 harness)
}

func MIMEIs2(m *mimetype.MIME, want string) bool {
	s := MIMEString2(m)
	for i := 0; i < len(s); i++ {
		if s[i] == ';' {
			s = s[:i]
			break
		}
	}
	return s == want
}

// ---- spooled temp file ----

type Spool struct {
	Written  int
	Closed   int
	WriteErr bool
	seeked   bool
}

var (
	Spools        []*Spool
	SpoolWriteErr bool
	ErrSpool      = errors.New("verifmodel: spool write error")
)

func NewSpooledTempFile(prefix, dir string, threshold int, fullOnDisk bool, frac float64) spooledtempfile.ReadWriteSeekCloser {
	s := &Spool{WriteErr: SpoolWriteErr}
	Spools = append(Spools, s)
	return s
}

func (s *Spool) Write(p []byte) (int, error) {
	if s.WriteErr {
		return 0, ErrSpool
	}
	s.Written += len(p)
	return len(p), nil
}
func (s *Spool) Read(p []byte) (int, error)                { s.seeked = true; return 0, io.EOF }
func (s *Spool) ReadAt(p []byte, off int64) (int, error)   { return 0, io.EOF }
func (s *Spool) Seek(off int64, whence int) (int64, error) { s.seeked = true; return 0, nil }
func (s *Spool) Close() error                              { s.Closed++; return nil }
func (s *Spool) FileName() string                          { return "" }
func (s *Spool) Len() int                                  { return s.Written }
