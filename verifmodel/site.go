//go:build verif

package verifmodel

import (
	"runtime"
	"net/http"

	"github.com/internetarchive/Zeno/pkg/models"
)

// ---- a whole site for the end-to-end pipeline harness (C01): per URL what the server answers and what the
// extractor layer finds in the document. Same contracts as the per-call models (HTTPClientDo, extractor layer). ----

type Page struct {
	Status   int
	Location string
	Kind     string // "html", "css" (assets only, via the JSON extractor slot), "" (nothing extractable)
	Assets   []string
	Outlinks []string
	NetFails int // leading transport failures before the server answers
}

var (
	Site         = map[string]*Page{}
	SiteAttempts = map[string]int{}
	SiteFetched  = map[string]int{} // answered requests per URL
	SiteLog      []string
)

func siteOf(u *models.URL) *Page {
	if u == nil {
		return nil
	}
	return Site[u.Raw]
}

func SiteClientDo(c *http.Client, req *http.Request) (*http.Response, error) {
	runtime.Gosched() // network I/O: every interleaving with the other goroutines is possible here
	key := req.URL.String()
	p := Site[key]
	n := SiteAttempts[key]
	SiteAttempts[key] = n + 1
	if p == nil {
		p = &Page{Status: 404}
	}
	if n < p.NetFails {
		return nil, ErrNet
	}
	SiteFetched[key]++
	SiteLog = append(SiteLog, key)
	var fb chan struct{}
	if v := req.Context().Value("feedback"); v != nil {
		fb = v.(chan struct{})
	}
	prefix := "\x00\x01\x02\x03"
	switch p.Kind {
	case "html":
		prefix = "<html>"
	case "css":
		prefix = "{\"a\":"
	}
	b := &Body{chunks: []int{8}, feedback: fb, prefix: prefix}
	DoBodies = append(DoBodies, b)
	h := http.Header{}
	if p.Location != "" {
		h["Location"] = []string{p.Location}
	}
	switch p.Kind {
	case "html":
		h["Content-Type"] = []string{"application/xhtml+xml"}
	case "css":
		h["Content-Type"] = []string{"application/json"}
	default:
		h["Content-Type"] = []string{"application/octet-stream"}
	}
	return &http.Response{StatusCode: p.Status, Header: h, Body: b, Request: req}, nil
}

func SiteIsHTML(u *models.URL) bool { p := siteOf(u); return p != nil && p.Kind == "html" }
func SiteIsJSON(u *models.URL) bool { p := siteOf(u); return p != nil && p.Kind == "css" }

func SiteHTMLAssets(it *models.Item) ([]*models.URL, error) {
	p := siteOf(it.GetURL())
	if p == nil {
		return nil, nil
	}
	return urls(p.Assets), nil
}
func SiteHTMLOutlinks(it *models.Item) ([]*models.URL, error) {
	p := siteOf(it.GetURL())
	if p == nil {
		return nil, nil
	}
	return urls(p.Outlinks), nil
}
func SiteJSON(u *models.URL) ([]*models.URL, []*models.URL, error) {
	p := siteOf(u)
	if p == nil {
		return nil, nil, nil
	}
	return urls(p.Assets), nil, nil
}
