//go:build verif

package verifmodel

import (
	"runtime"
	"context"
	"errors"

	"github.com/internetarchive/Zeno/internal/verifrt"
	"github.com/internetarchive/gocrawlhq"
)

// ---- crawl HQ client: Add/Delete fail or succeed per a fault sequence chosen by the harness and record what was
// delivered (contract: a call either stores the whole batch or fails as a whole) ----

var (
	HQFaults    []bool // HQFaults[i] == true: the i-th call fails (5xx / timeout)
	HQTimeout   bool   // the failing calls are requests that never get an answer: they end with the client's timeout
	//                    or, earlier, when a deadline on the caller's context expires
	HQCalls     int
	HQAdded     [][]gocrawlhq.URL
	HQDeleted   [][]gocrawlhq.URL
	ErrHQFailed = errors.New("verifmodel: crawl HQ answered 5xx")
	ErrHQTimeout = errors.New("verifmodel: crawl HQ request timed out")
	HQStall      chan struct{} // non-nil: crawl HQ does not answer any request until the harness closes the channel
)

func hqErr(ctx context.Context) error {
	if HQTimeout {
		verifrt.ExpireDeadline(ctx)
		return ErrHQTimeout
	}
	return ErrHQFailed
}

func hqFail() bool {
	i := HQCalls
	HQCalls++
	return i < len(HQFaults) && HQFaults[i]
}

func HQAdd(c *gocrawlhq.Client, ctx context.Context, urls []gocrawlhq.URL, bypass bool) error {
	runtime.Gosched() // network I/O: every interleaving with the other goroutines is possible here
	if hqFail() {
		return hqErr(ctx)
	}
	cp := make([]gocrawlhq.URL, len(urls))
	copy(cp, urls)
	HQAdded = append(HQAdded, cp)
	return nil
}

func HQDelete(c *gocrawlhq.Client, ctx context.Context, urls []gocrawlhq.URL, localCrawls int) error {
	runtime.Gosched() // network I/O: every interleaving with the other goroutines is possible here
	if HQStall != nil {
		<-HQStall
	}
	if hqFail() {
		return hqErr(ctx)
	}
	cp := make([]gocrawlhq.URL, len(urls))
	copy(cp, urls)
	HQDeleted = append(HQDeleted, cp)
	return nil
}

// HQSeencheck models (*gocrawlhq.Client).Seencheck: HQ answers with the sub-list of the URLs it was sent that it had
// NOT seen before (selected by HQUnseen, keyed by the value sent), or fails.
var (
	HQUnseen        = map[string]bool{}
	HQSeencheckErr  bool
	HQSeencheckSent [][]gocrawlhq.URL
)

func HQSeencheck(c *gocrawlhq.Client, ctx context.Context, urls []gocrawlhq.URL) ([]gocrawlhq.URL, error) {
	runtime.Gosched() // network I/O: every interleaving with the other goroutines is possible here
	cp := make([]gocrawlhq.URL, len(urls))
	copy(cp, urls)
	HQSeencheckSent = append(HQSeencheckSent, cp)
	if HQSeencheckErr {
		return nil, ErrHQFailed
	}
	var out []gocrawlhq.URL
	for _, u := range urls {
		if HQUnseen[u.Value] {
			out = append(out, u)
		}
	}
	return out, nil
}
