//go:build verif

package verifmodel

import (
	"errors"
	"net/url"

	"github.com/gabriel-vasile/mimetype"
	"github.com/internetarchive/Zeno/pkg/models"
)

// ---- the extractor layer seen from the post-processor (C06/C01): which extractor claims the document and what it
// returns are chosen by the harness (contract: an extractor returns URL lists or an error, nothing else) ----

var (
	DocKind      string // "html", "json", "xml", "m3u8", "s3", "sitemap", "pdf" or "" (no extractor claims it)
	DocAssets    []string
	DocOutlinks  []string
	DocErr       bool
	HeaderLinks  []string
	MIME         string
	DomainMatch  = map[string]bool{}
	ErrExtractor = errors.New("verifmodel: extractor failed")
)

func urls(raw []string) []*models.URL {
	var out []*models.URL
	for _, r := range raw {
		out = append(out, &models.URL{Raw: r})
	}
	return out
}

func docErr() error {
	if DocErr {
		return ErrExtractor
	}
	return nil
}

func IsHTML(u *models.URL) bool    { return DocKind == "html" }
func IsJSON(u *models.URL) bool    { return DocKind == "json" }
func IsXML(u *models.URL) bool     { return DocKind == "xml" }
func IsM3U8(u *models.URL) bool    { return DocKind == "m3u8" }
func IsS3(u *models.URL) bool      { return DocKind == "s3" }
func IsSitemap(u *models.URL) bool { return DocKind == "sitemap" }
func IsPDF(u *models.URL) bool     { return DocKind == "pdf" }
func False(u *models.URL) bool     { return false }

// on failure an extractor returns no lists (as the real ones do)
func AssetsOnlyURL(u *models.URL) ([]*models.URL, error) {
	if DocErr {
		return nil, ErrExtractor
	}
	return urls(DocAssets), nil
}
func AssetsOnlyItem(it *models.Item) ([]*models.URL, error) { return AssetsOnlyURL(nil) }
func OutlinksOnlyURL(u *models.URL) ([]*models.URL, error) {
	if DocErr {
		return nil, ErrExtractor
	}
	return urls(DocOutlinks), nil
}
func OutlinksOnlyItem(it *models.Item) ([]*models.URL, error) { return OutlinksOnlyURL(nil) }
func AssetsAndOutlinks(u *models.URL) ([]*models.URL, []*models.URL, error) {
	if DocErr {
		return nil, nil, ErrExtractor
	}
	return urls(DocAssets), urls(DocOutlinks), nil
}
func HeaderURLs(u *models.URL) []*models.URL { return urls(HeaderLinks) }
func NoLinks(u *models.URL) []*models.URL    { return nil }

func DomainsMatch(raw string) bool { return DomainMatch[raw] }

func MIMEString(m *mimetype.MIME) string        { return MIME }
func MIMEIs(m *mimetype.MIME, want string) bool { return MIME == want }

// URLToString models pkg/models.URLToString (query re-encoding + IDNA): the harness URLs are plain ASCII without query.
func URLToString(u *url.URL) string { return u.Scheme + "://" + u.Host + u.Path }
