//go:build verif

// Package verifmodel holds the models that replace third-party functions in the symbolic run
// (mapping in /verif/props.py DEFAULT_MODELS). Each model states the contract it assumes.
package verifmodel

import (
	"github.com/CorentinB/warc"
)

// WarcClientsCreated records every client the model constructor handed out.
var WarcClientsCreated []*warc.CustomHTTPClient

// WarcClientsClosed records every client on which Close ran to completion.
var WarcClientsClosed []*warc.CustomHTTPClient

// NewWARCWritingHTTPClient models warc.NewWARCWritingHTTPClient: a non-nil client carrying the fields
// Zeno's archiver touches (WaitGroup, ErrChan, WARCWriter, DiscardHook); no network, files or writer goroutines.
func NewWARCWritingHTTPClient(s warc.HTTPClientSettings) (*warc.CustomHTTPClient, error) {
	c := new(warc.CustomHTTPClient)
	c.DiscardHook = s.DiscardHook
	c.ErrChan = make(chan *warc.Error)
	c.WaitGroup = new(warc.WaitGroupWithCount)
	c.WARCWriter = make(chan *warc.RecordBatch, 1)
	c.TempDir = s.TempDir
	c.FullOnDisk = s.FullOnDisk
	WarcClientsCreated = append(WarcClientsCreated, c)
	return c, nil
}

// WarcClientClose models (*warc.CustomHTTPClient).Close: waits for in-flight records, then closes the
// writer and error channels (closing twice panics, as in the library).
func WarcClientClose(c *warc.CustomHTTPClient) error {
	c.WaitGroup.Wait()
	close(c.WARCWriter)
	close(c.ErrChan)
	WarcClientsClosed = append(WarcClientsClosed, c)
	return nil
}
