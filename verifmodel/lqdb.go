//go:build verif

package verifmodel

import (
	"context"
	"database/sql"
	"errors"
	"sync"

	"github.com/internetarchive/Zeno/internal/pkg/source/lq/sqlc_model"
)

// ---- the local queue's SQLite database: one table `urls`, the six statements of query.sql (+ the reset of
// handed-out rows, if the code has one), transactions on the single connection ----
//
// Contract (from schema.sql / query.sql): id is the primary key, value is unique; a new row is FRESH;
// GetFreshURLs returns up to `limit` FRESH rows; ClaimThisURL/ResetURL/DoneURL set the status of the row with that id
// (no row: no effect); DeleteURL removes it; a transaction's writes become visible at Commit and are undone by
// Rollback; SetMaxOpenConns(1): one transaction (or statement) at a time. The table outlives the client (it is the
// file lq.db): a second Init sees what the first one left.

var (
	LQTable []sqlc_model.Url // the file
	lqConn  sync.Mutex       // the single connection
	lqMeta  sync.Mutex       // guards the model's own bookkeeping maps
	lqTx    = map[*sql.Tx]*lqTxState{}
	lqInTx  = map[*sqlc_model.Queries]bool{}
)

type lqTxState struct {
	before []sqlc_model.Url
	open   bool
}

func LQSqlOpen(driver, dsn string) (*sql.DB, error) { return new(sql.DB), nil }
func LQSetMaxOpenConns(db *sql.DB, n int)            {}
func LQExec(db *sql.DB, query string, args ...any) (sql.Result, error) {
	return nil, nil // the schema: CREATE ... IF NOT EXISTS
}

func LQBegin(db *sql.DB) (*sql.Tx, error) {
	lqConn.Lock()
	tx := new(sql.Tx)
	lqMeta.Lock()
	lqTx[tx] = &lqTxState{before: append([]sqlc_model.Url(nil), LQTable...), open: true}
	lqMeta.Unlock()
	return tx, nil
}

func lqState(tx *sql.Tx) *lqTxState {
	lqMeta.Lock()
	defer lqMeta.Unlock()
	return lqTx[tx]
}

func LQCommit(tx *sql.Tx) error {
	st := lqState(tx)
	if st == nil || !st.open {
		return sql.ErrTxDone
	}
	st.open = false
	lqConn.Unlock()
	return nil
}

func LQRollback(tx *sql.Tx) error {
	st := lqState(tx)
	if st == nil || !st.open {
		return sql.ErrTxDone
	}
	st.open = false
	LQTable = st.before
	lqConn.Unlock()
	return nil
}

func LQWithTx(q *sqlc_model.Queries, tx *sql.Tx) *sqlc_model.Queries {
	n := sqlc_model.New(nil)
	lqMeta.Lock()
	lqInTx[n] = true
	lqMeta.Unlock()
	return n
}

// lqStmt runs one statement: inside a transaction the connection is already held.
func lqStmt(q *sqlc_model.Queries, f func()) {
	lqMeta.Lock()
	in := lqInTx[q]
	lqMeta.Unlock()
	if in {
		f()
		return
	}
	lqConn.Lock()
	f()
	lqConn.Unlock()
}

func lqSetStatus(id, status string) {
	for i := range LQTable {
		if LQTable[i].ID == id {
			LQTable[i].Status = status
		}
	}
}

func LQGetFreshURLs(q *sqlc_model.Queries, ctx context.Context, limit int64) ([]sqlc_model.Url, error) {
	var out []sqlc_model.Url
	lqStmt(q, func() {
		for _, r := range LQTable {
			if r.Status == "FRESH" && int64(len(out)) < limit {
				out = append(out, r)
			}
		}
	})
	return out, nil
}

func LQClaimThisURL(q *sqlc_model.Queries, ctx context.Context, id string) error {
	lqStmt(q, func() { lqSetStatus(id, "CLAIMED") })
	return nil
}

func LQResetURL(q *sqlc_model.Queries, ctx context.Context, id string) error {
	lqStmt(q, func() { lqSetStatus(id, "FRESH") })
	return nil
}

func LQDoneURL(q *sqlc_model.Queries, ctx context.Context, id string) error {
	lqStmt(q, func() { lqSetStatus(id, "DONE") })
	return nil
}

// LQResetClaimedURLs: UPDATE urls SET status = 'FRESH' WHERE status = 'CLAIMED'
func LQResetClaimedURLs(q *sqlc_model.Queries, ctx context.Context) error {
	lqStmt(q, func() {
		for i := range LQTable {
			if LQTable[i].Status == "CLAIMED" {
				LQTable[i].Status = "FRESH"
			}
		}
	})
	return nil
}

func LQDeleteURL(q *sqlc_model.Queries, ctx context.Context, id string) error {
	lqStmt(q, func() {
		var keep []sqlc_model.Url
		for _, r := range LQTable {
			if r.ID != id {
				keep = append(keep, r)
			}
		}
		LQTable = keep
	})
	return nil
}

var (
	ErrLQUniqueValue = errors.New("sqlite3: constraint failed: UNIQUE constraint failed: urls.value")
	ErrLQUniqueID    = errors.New("sqlite3: constraint failed: UNIQUE constraint failed: urls.id")
)

func LQAddURL(q *sqlc_model.Queries, ctx context.Context, arg sqlc_model.AddURLParams) error {
	var err error
	lqStmt(q, func() {
		for _, r := range LQTable {
			if r.ID == arg.ID {
				err = ErrLQUniqueID
				return
			}
			if r.Value == arg.Value {
				err = ErrLQUniqueValue
				return
			}
		}
		LQTable = append(LQTable, sqlc_model.Url{ID: arg.ID, Value: arg.Value, Via: arg.Via, Hops: arg.Hops, Status: "FRESH"})
	})
	return err
}
