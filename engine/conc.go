package main

// Simulated goroutines. Each interpreted goroutine runs on a real goroutine, but
// only one of them runs at any time (baton passing), and every switch is a
// recorded decision, so a path is a (schedule, data-class) pair.

import (
	"fmt"
	"go/types"
	"os"
	"strings"
	"sync"

	"golang.org/x/tools/go/ssa"
)

type chanReg struct {
	g    *GoR
	ch   *ChanObj
	send bool
	val  Value
	arm  int
}

type GoR struct {
	id           int
	name         string
	wake         chan struct{}
	done         bool
	blocked      bool
	canRun       func() bool
	what         string
	curFn        *ssa.Function
	curInstr     ssa.Instruction
	recoverFrame *Frame
	unwind       int
	regs         []*chanReg
	completed    *chanReg
	recvVal      Value
	recvOk       bool
	sendPanic    bool
	raiseBlocked bool
	wouldBlock   int
	daemon       bool // environment goroutine: may stay blocked at the end
	pending      *pendingOp
	vc           vclock
	sleeping     bool // inside time.Sleep (sleep_env): woken by a granted timer firing, or for free when nothing else can run
	sleepWake    bool
}

// pendingOp describes the visible operation a goroutine is about to perform (for partial-order reduction):
// two operations are dependent iff they touch a common synchronisation object (or one of them is global).
type pendingOp struct {
	objs   []interface{}
	all    bool
	noSync bool // channel operations synchronise at the arm actually taken, not on every channel they look at
}

func dependent(a, b *pendingOp) bool {
	if a == nil || b == nil {
		return false // a goroutine that has not reached its first visible operation commutes with everything
	}
	if a.all || b.all {
		return true
	}
	for _, x := range a.objs {
		for _, y := range b.objs {
			if x == y {
				return true
			}
		}
	}
	return false
}

// opExecuted wakes the sleeping goroutines whose next operation depends on the one g performs now.
func (ip *Interp) opExecuted(g *GoR) {
	if g.pending != nil && !g.pending.noSync {
		for _, o := range g.pending.objs {
			ip.syncOp(o)
		}
	}
	delete(ip.sleep, g)
	for s := range ip.sleep {
		if dependent(s.pending, g.pending) {
			delete(ip.sleep, s)
		}
	}
}

// pick chooses the next goroutine among ordered candidates using sleep sets: candidates explored by an
// earlier sibling branch sleep until a dependent operation happens (classic sleep-set partial-order reduction).
func (ip *Interp) pick(cands []*GoR) *GoR {
	var opts []*GoR
	for _, c := range cands {
		if !ip.sleep[c] {
			opts = append(opts, c)
		}
	}
	if len(opts) == 0 {
		panic(&PathEnd{kind: "redundant", msg: "sleep-set blocked"})
	}
	if !ip.cfg.NoPOR && os.Getenv("VERIF_NOSTART") != "1" {
		// a goroutine that has not reached its first visible operation yet commutes with everything:
		// run it first, no alternative order needs exploring
		for _, c := range opts {
			if c.pending == nil && c != ip.cur {
				ip.freshPick = true
				return c
			}
		}
	}
	k := ip.choose(len(opts))
	if !ip.cfg.NoPOR {
		for i := 0; i < k; i++ {
			ip.sleep[opts[i]] = true
		}
	}
	return opts[k]
}

// BlockedForever is raised inside verifrt.WouldBlock scopes.
type BlockedForever struct{}

type concState struct {
	killed   bool
	wg       sync.WaitGroup
	pathDone chan struct{}
	endOnce  sync.Once
	end      *PathEnd
	endPanic *GoPanic
	envTicks int
	envEpoch int // EnvTicksEach grants: every environment channel may fire envEach times per grant
	envEach  int
}

func (ip *Interp) where(g *GoR) string {
	if g.curInstr == nil || g.curFn == nil {
		return g.name
	}
	return fmt.Sprintf("%s in %s at %s", g.name, g.curFn, ip.prog.Fset.Position(g.curInstr.Pos()))
}

func (ip *Interp) finishPath(pe *PathEnd, gp *GoPanic) {
	ip.conc.endOnce.Do(func() {
		ip.conc.end = pe
		ip.conc.endPanic = gp
		ip.conc.killed = true
		close(ip.conc.pathDone)
	})
}

// startGoroutine launches body as simulated goroutine g (parked until first scheduled, unless first).
func (ip *Interp) startGoroutine(g *GoR, body func(), runNow bool) {
	ip.conc.wg.Add(1)
	go func() {
		defer ip.conc.wg.Done()
		defer func() {
			if r := recover(); r != nil {
				switch e := r.(type) {
				case *PathEnd:
					if e.kind != "killed" {
						ip.finishPath(e, nil)
					}
				case *GoPanic:
					if !ip.cfg.AllowPanic {
						ip.violation("panic", "no-panic", e.reason+" @ "+e.pos, ip.curModel)
					}
					ip.finishPath(&PathEnd{kind: "panic", msg: e.reason + " @ " + e.pos}, e)
				case *BlockedForever:
					ip.finishPath(&PathEnd{kind: "deadlock", msg: "blocked forever outside WouldBlock"}, nil)
				default:
					ip.finishPath(&PathEnd{kind: "engine-error", msg: fmt.Sprintf("%v\n%s", r, stackTrace())}, nil)
				}
			}
		}()
		if !runNow {
			<-g.wake
			if ip.conc.killed {
				panic(&PathEnd{kind: "killed"})
			}
		}
		body()
		g.done = true
		if g.id == 0 {
			ip.finishPath(&PathEnd{kind: "done"}, nil)
			return
		}
		// hand over
		ip.yieldAfterExit()
	}()
}

func (ip *Interp) runnable(excl *GoR) []*GoR {
	var r []*GoR
	for _, g := range ip.gs {
		if g == excl || g.done {
			continue
		}
		if g.blocked {
			if g.canRun != nil && g.canRun() {
				r = append(r, g)
			}
			continue
		}
		r = append(r, g)
	}
	return r
}

func (ip *Interp) switchTo(t *GoR) {
	self := ip.cur
	ip.cur = t
	t.wake <- struct{}{}
	if self.done {
		return
	}
	<-self.wake
	if ip.conc.killed {
		panic(&PathEnd{kind: "killed"})
	}
	if self.raiseBlocked {
		self.raiseBlocked = false
		panic(&BlockedForever{})
	}
}

func (ip *Interp) yieldAfterExit() {
	rs := ip.runnable(ip.cur)
	if len(rs) == 0 {
		if !ip.noneRunnable() {
			return
		}
		rs = ip.runnable(ip.cur) // a sleeper was woken
	}
	ip.switchTo(ip.pick(rs))
}

// noneRunnable is called by the current goroutine when nothing can run.
// noneRunnable: nobody can run. Returns true if a sleeper was woken (the caller looks for runnable goroutines again).
func (ip *Interp) noneRunnable() bool {
	// a goroutine inside WouldBlock gets the BlockedForever signal
	for _, g := range ip.gs {
		if !g.done && g.blocked && g.wouldBlock > 0 {
			if g == ip.cur {
				g.blocked = false
				panic(&BlockedForever{})
			}
			g.raiseBlocked = true
			g.blocked = false
			ip.switchTo(g)
			return false
		}
	}
	// nothing can run but somebody sleeps: time passes and the sleeper wakes (a sleep always ends)
	for _, g := range ip.gs {
		if !g.done && g.blocked && g.sleeping && !g.sleepWake {
			ip.freeWakes++
			if ip.freeWakes > 200 {
				panic(&PathEnd{kind: "unwind", msg: "a polling loop (time.Sleep) keeps running while everything else is blocked"})
			}
			g.sleepWake = true
			return true
		}
	}
	var sb strings.Builder
	for _, g := range ip.gs {
		if !g.done {
			fmt.Fprintf(&sb, "[%s blocked on %s] ", ip.where(g), g.what)
		}
	}
	msg := sb.String()
	ip.violation("deadlock", "deadlock", msg, ip.curModel)
	panic(&PathEnd{kind: "deadlock", msg: msg})
}

// schedPoint is a potential preemption before a visible operation on the given synchronisation objects
// (none given = an operation that depends on everything).
func (ip *Interp) schedPoint(what string, objs ...interface{}) {
	g := ip.cur
	g.pending = &pendingOp{objs: objs, all: len(objs) == 0}
	for _, o := range objs {
		if _, isChan := o.(*ChanObj); isChan {
			g.pending.noSync = true
		}
	}
	if len(ip.gs) <= 1 || ip.inInit {
		return
	}
	if ip.preempts < ip.maxPreempt {
		rs := ip.runnable(g)
		if len(rs) > 0 {
			ip.freshPick = false
			c := ip.pick(append([]*GoR{g}, rs...))
			if c != g {
				if !ip.freshPick {
					ip.preempts++ // letting a just-created goroutine reach its first visible operation is not a preemption
				}
				ip.switchTo(c)
			}
		}
	}
	ip.opExecuted(g)
}

// block parks the current goroutine until pred holds.
func (ip *Interp) block(pred func() bool, what string) {
	g := ip.cur
	waited := false
	for !pred() {
		waited = true
		g.blocked = true
		g.canRun = pred
		g.what = what
		rs := ip.runnable(g)
		if len(rs) == 0 {
			ip.noneRunnable()
			g.blocked = false
			continue
		}
		ip.switchTo(ip.pick(rs))
		g.blocked = false
	}
	g.canRun = nil
	if waited {
		ip.opExecuted(g)
	}
}

func (ip *Interp) spawn(d *deferred) {
	g := &GoR{id: len(ip.gs), wake: make(chan struct{}), unwind: ip.cur.unwind}
	g.name = fmt.Sprintf("g%d", g.id)
	if cl, ok := d.fn.(*Closure); ok && cl != nil && cl.fn != nil {
		g.name += ":" + cl.fn.Name()
	}
	ip.gs = append(ip.gs, g)
	ip.forkClock(ip.cur, g)
	ip.startGoroutine(g, func() { ip.invokeDeferred(d) }, false)
	ip.schedPoint("go", g)
}

// ---------- channels ----------

func (ip *Interp) unregister(g *GoR) {
	for _, r := range g.regs {
		q := &r.ch.recvq2
		if r.send {
			q = &r.ch.sendq2
		}
		for i, x := range *q {
			if x == r {
				*q = append(append([]*chanReg{}, (*q)[:i]...), (*q)[i+1:]...)
				break
			}
		}
	}
	g.regs = nil
}

func (ip *Interp) complete(r *chanReg, val Value, ok bool, sendPanic bool) {
	g := r.g
	g.completed = r
	g.recvVal = val
	g.recvOk = ok
	g.sendPanic = sendPanic
	ip.unregister(g)
}

// envAvail: may this environment channel (ticker, time.After) fire now? Either the harness granted firings to every
// timer (EnvTicksEach: time passes, each ticker fires) or there is something left in the shared pool (EnvTicks: which
// timer gets a firing is the scheduler's choice).
func (ip *Interp) envAvail(ch *ChanObj) bool {
	if ch.envEp != ip.conc.envEpoch {
		ch.envEp, ch.envOwn = ip.conc.envEpoch, ip.conc.envEach
	}
	return ch.envOwn > 0 || ip.conc.envTicks > 0
}

func (ip *Interp) envTake(ch *ChanObj) {
	if ch.envEp != ip.conc.envEpoch {
		ch.envEp, ch.envOwn = ip.conc.envEpoch, ip.conc.envEach
	}
	if ch.envOwn > 0 {
		ch.envOwn--
	} else {
		ip.conc.envTicks--
	}
	ip.syncAcquire(ip.conc) // the firing was granted by the harness: its earlier actions happen before
}

// tryRecv attempts a non-blocking receive.
func (ip *Interp) tryRecv(ch *ChanObj) (Value, bool, bool) {
	if ch == nil {
		return nil, false, false
	}
	if ch.env {
		if ip.envAvail(ch) {
			ip.envTake(ch)
			return ip.zero(ch.elemT), true, true
		}
		return nil, false, false
	}
	if len(ch.buf) > 0 || len(ch.sendq2) > 0 || ch.closed {
		ip.syncAcquire(ch)
		if ch.cap > 0 || len(ch.sendq2) > 0 {
			// the k-th receive happens before the (k+cap)-th send completes; on an unbuffered channel the receive
			// happens before the completion of the send it meets (the blocked sender acquires when it resumes)
			ip.syncRelease(ch)
		}
	}
	if len(ch.buf) > 0 {
		v := ch.buf[0]
		ch.buf = ch.buf[1:]
		if len(ch.sendq2) > 0 {
			s := ch.sendq2[0]
			ch.buf = append(ch.buf, s.val)
			ip.complete(s, nil, true, false)
		}
		return v, true, true
	}
	if len(ch.sendq2) > 0 {
		s := ch.sendq2[0]
		v := s.val
		ip.complete(s, nil, true, false)
		return v, true, true
	}
	if ch.closed {
		return ip.zero(ch.elemT), false, true
	}
	return nil, false, false
}

func (ip *Interp) recvReady(ch *ChanObj) bool {
	if ch == nil {
		return false
	}
	if ch.env {
		return ip.envAvail(ch)
	}
	return len(ch.buf) > 0 || len(ch.sendq2) > 0 || ch.closed
}

func (ip *Interp) sendReady(ch *ChanObj) bool {
	if ch == nil {
		return false
	}
	return ch.closed || len(ch.recvq2) > 0 || len(ch.buf) < ch.cap
}

// trySend attempts a non-blocking send; panics (interpreted) on closed channel.
func (ip *Interp) trySend(ch *ChanObj, v Value) bool {
	if ch == nil {
		return false
	}
	if ch.closed {
		ip.goPanic("send on closed channel")
	}
	if len(ch.recvq2) > 0 || len(ch.buf) < ch.cap {
		if ch.cap == 0 && len(ch.recvq2) > 0 && ip.raceOn() {
			// unbuffered rendezvous with a waiting receiver: the receive happens before this send completes
			ip.clockOf(ch).join(ch.recvq2[0].g.vc)
		}
		ip.syncAcquire(ch)
		ip.syncRelease(ch)
	}
	if len(ch.recvq2) > 0 {
		r := ch.recvq2[0]
		ip.complete(r, v, true, false)
		return true
	}
	if len(ch.buf) < ch.cap {
		ch.buf = append(ch.buf, v)
		return true
	}
	return false
}

func (ip *Interp) chanSend(ch *ChanObj, v Value) {
	ip.schedPoint("chan send", ch)
	if ip.trySend(ch, v) {
		return
	}
	g := ip.cur
	g.completed = nil
	if ch != nil {
		r := &chanReg{g: g, ch: ch, send: true, val: v}
		g.regs = []*chanReg{r}
		ch.sendq2 = append(ch.sendq2, r)
		ip.syncRelease(ch)
	}
	ip.block(func() bool { return g.completed != nil }, "chan send")
	if ch != nil {
		ip.syncAcquire(ch)
	}
	if g.sendPanic {
		g.sendPanic = false
		ip.goPanic("send on closed channel")
	}
}

func (ip *Interp) chanRecv(ch *ChanObj) (Value, bool) {
	ip.schedPoint("chan recv", ch)
	if v, ok, done := ip.tryRecv(ch); done {
		return v, ok
	}
	g := ip.cur
	g.completed = nil
	if ch != nil && !ch.env {
		r := &chanReg{g: g, ch: ch}
		g.regs = []*chanReg{r}
		ch.recvq2 = append(ch.recvq2, r)
	}
	isEnv := ch != nil && ch.env
	ip.block(func() bool { return g.completed != nil || (isEnv && ip.envAvail(ch)) }, "chan receive")
	if g.completed == nil {
		ip.envTake(ch)
		return ip.zero(ch.elemT), true
	}
	ip.syncAcquire(ch)
	return g.recvVal, g.recvOk
}

func (ip *Interp) chanClose(ch *ChanObj) {
	ip.schedPoint("close", ch)
	if ch == nil {
		ip.goPanic("close of nil channel")
	}
	if ch.closed {
		ip.goPanic("close of closed channel")
	}
	ip.syncRelease(ch)
	ch.closed = true
	for len(ch.recvq2) > 0 {
		ip.complete(ch.recvq2[0], ip.zero(ch.elemT), false, false)
	}
	for len(ch.sendq2) > 0 {
		ip.complete(ch.sendq2[0], nil, false, true)
	}
}

func (ip *Interp) selectOp(fr *Frame, x *ssa.Select) Value {
	tb := ip.tb
	type arm struct {
		ch   *ChanObj
		send bool
		val  Value
	}
	arms := make([]arm, len(x.States))
	var objs []interface{}
	for i, st := range x.States {
		ch, _ := ip.get(fr, st.Chan).(*ChanObj)
		arms[i] = arm{ch: ch, send: st.Dir == types.SendOnly}
		if arms[i].send {
			arms[i].val = ip.get(fr, st.Send)
		}
		if ch != nil {
			objs = append(objs, ch)
		}
	}
	if len(objs) == 0 {
		objs = append(objs, x) // a select on nil channels only: touches nothing shared
	}
	ip.schedPoint("select", objs...)
	result := func(idx int, rv Value, rok bool) Value {
		tp := Tuple{ip.intConst(idx, 64), tb.BoolConst(rok)}
		for i, st := range x.States {
			if st.Dir == types.RecvOnly {
				et := under(st.Chan.Type()).(*types.Chan).Elem()
				if i == idx && rv != nil {
					tp = append(tp, rv)
				} else {
					tp = append(tp, ip.zero(et))
				}
			}
		}
		return tp
	}
	var ready []int
	for i, a := range arms {
		if a.send {
			if ip.sendReady(a.ch) {
				ready = append(ready, i)
			}
		} else if ip.recvReady(a.ch) {
			ready = append(ready, i)
		}
	}
	if len(ready) > 0 {
		i := ready[ip.choose(len(ready))]
		a := arms[i]
		if a.send {
			ip.trySend(a.ch, a.val)
			return result(i, nil, false)
		}
		v, ok, _ := ip.tryRecv(a.ch)
		return result(i, v, ok)
	}
	if !x.Blocking {
		return result(-1, nil, false)
	}
	g := ip.cur
	g.completed = nil
	g.regs = nil
	envArm := -1
	for i, a := range arms {
		if a.ch == nil {
			continue
		}
		if a.ch.env {
			envArm = i
			continue
		}
		r := &chanReg{g: g, ch: a.ch, send: a.send, val: a.val, arm: i}
		g.regs = append(g.regs, r)
		if a.send {
			a.ch.sendq2 = append(a.ch.sendq2, r)
			ip.syncRelease(a.ch)
		} else {
			a.ch.recvq2 = append(a.ch.recvq2, r)
		}
	}
	ip.block(func() bool { return g.completed != nil || (envArm >= 0 && ip.envAvail(arms[envArm].ch)) }, "select")
	if g.completed == nil {
		// woken by an environment event (ticker / time.After) that became available
		ip.unregister(g)
		ip.envTake(arms[envArm].ch)
		return result(envArm, ip.zero(arms[envArm].ch.elemT), true)
	}
	r := g.completed
	ip.syncAcquire(r.ch)
	if r.send {
		if g.sendPanic {
			g.sendPanic = false
			ip.goPanic("send on closed channel")
		}
		return result(r.arm, nil, false)
	}
	return result(r.arm, g.recvVal, g.recvOk)
}

func stackTrace() string {
	buf := make([]byte, 8192)
	n := runtimeStack(buf)
	return string(buf[:n])
}

// sharedAccess: plain loads/stores are not scheduling points (data-race freedom is checked by race.go).
func (ip *Interp) sharedAccess(c *Cell) {}
