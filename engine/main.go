package main

// verif engine: symbolic execution of Go SSA (golang.org/x/tools/go/ssa) with an SMT solver.
// Usage: engine spec.json

import (
	"encoding/json"
	"fmt"
	"os"
	"strings"
	"sync"
	"time"

	"golang.org/x/tools/go/packages"
	"golang.org/x/tools/go/ssa"
	"golang.org/x/tools/go/ssa/ssautil"
)

type RunSpec struct {
	Pkg          string `json:"pkg"`
	Func         string `json:"func"`
	Unwind       int    `json:"unwind"`
	MaxPaths     int    `json:"max_paths"`
	MaxWallS     int    `json:"max_wall_s"`
	MaxSteps     int    `json:"max_steps"`
	MapOrderAll  *bool  `json:"map_order_all"`
	SymbolicNow  bool   `json:"symbolic_now"`
	AllowPanic   bool   `json:"allow_panic"`
	Preempt      int    `json:"preempt"`
	TimeoutMs    int    `json:"timeout_ms"`
	CoverModels  bool   `json:"cover_models"`
	DumpSMT      string `json:"dump_smt"`
	Solver       string `json:"solver"`
	AbstractTime bool   `json:"abstract_time"`
	SleepEnv     bool   `json:"sleep_env"`
	NoPreempt    bool   `json:"no_preempt"`
	DebugPrefix  []int  `json:"debug_prefix"`
}

type Spec struct {
	Repo      string            `json:"repo"`
	Overlay   map[string]string `json:"overlay"`
	Load      []string          `json:"load"`
	Tags      string            `json:"tags"`
	StubPkgs  []string          `json:"stub_pkgs"`
	RealPkgs  []string          `json:"real_pkgs"`
	InitPkgs  []string          `json:"init_pkgs"`
	Models    map[string]string `json:"models"`
	Workers   int               `json:"workers"`
	Solver    string            `json:"solver"`
	TimeoutMs int               `json:"timeout_ms"`
	Seed      int               `json:"seed"`
	Runs      []RunSpec         `json:"runs"`
	Out       string            `json:"out"`
}

type Output struct {
	LoadSec   float64          `json:"load_s"`
	Packages  int              `json:"ssa_packages"`
	Results   []*HarnessResult `json:"results"`
	Error     string           `json:"error,omitempty"`
	Solver    string           `json:"solver"`
	GoVersion string           `json:"go_version"`
}

func fail(out *Output, path string, msg string) {
	out.Error = msg
	writeJSON(path, out)
	fmt.Fprintln(os.Stderr, "engine error:", msg)
	os.Exit(2)
}

func main() {
	if len(os.Args) < 2 {
		fmt.Fprintln(os.Stderr, "usage: engine spec.json")
		os.Exit(2)
	}
	raw, err := os.ReadFile(os.Args[1])
	if err != nil {
		panic(err)
	}
	var spec Spec
	if err := json.Unmarshal(raw, &spec); err != nil {
		panic(err)
	}
	out := &Output{Solver: spec.Solver}
	t0 := time.Now()
	overlay := map[string][]byte{}
	for virt, real := range spec.Overlay {
		b, err := os.ReadFile(real)
		if err != nil {
			fail(out, spec.Out, err.Error())
		}
		overlay[virt] = b
	}
	cfg := &packages.Config{Mode: packages.LoadAllSyntax, Dir: spec.Repo, Overlay: overlay}
	if spec.Tags != "" {
		cfg.BuildFlags = []string{"-tags", spec.Tags}
	}
	pkgs, err := packages.Load(cfg, spec.Load...)
	if err != nil {
		fail(out, spec.Out, "load: "+err.Error())
	}
	var errs []string
	packages.Visit(pkgs, nil, func(p *packages.Package) {
		for _, e := range p.Errors {
			errs = append(errs, e.Error())
		}
	})
	if len(errs) > 0 {
		fail(out, spec.Out, "package errors: "+strings.Join(errs, "; "))
	}
	prog, _ := ssautil.AllPackages(pkgs, ssa.InstantiateGenerics)
	prog.Build()
	out.LoadSec = time.Since(t0).Seconds()
	out.Packages = len(prog.AllPackages())

	findFn := func(pkgPath, name string) *ssa.Function {
		for _, p := range prog.AllPackages() {
			if p.Pkg.Path() == pkgPath {
				return p.Func(name)
			}
		}
		return nil
	}
	models := map[string]*ssa.Function{}
	for k, v := range spec.Models {
		i := strings.LastIndex(v, ".")
		f := findFn(v[:i], v[i+1:])
		if f == nil {
			fail(out, spec.Out, "model function not found: "+v)
		}
		models[k] = f
	}
	out.Results = make([]*HarnessResult, len(spec.Runs))
	slots := spec.Workers
	if slots <= 0 {
		slots = 8
	}
	sem := make(chan struct{}, slots)
	var wg sync.WaitGroup
	for i, r := range spec.Runs {
		h := findFn(r.Pkg, r.Func)
		if h == nil {
			fail(out, spec.Out, "harness not found: "+r.Pkg+"."+r.Func)
		}
		c := &Config{MaxSteps: 2000000, Unwind: 64, MaxMakeSlice: 70000, StubPkgs: spec.StubPkgs, RealPkgs: spec.RealPkgs,
			InitPkgs: spec.InitPkgs, ModelFor: models, Workers: slots, SolverBin: spec.Solver,
			SolverTimeoutMs: spec.TimeoutMs, Seed: spec.Seed, MaxPreempt: 2, MapOrderAll: true}
		if r.Unwind > 0 {
			c.Unwind = r.Unwind
		}
		if r.MaxSteps > 0 {
			c.MaxSteps = r.MaxSteps
		}
		if r.MaxPaths > 0 {
			c.MaxPaths = r.MaxPaths
		}
		if r.MaxWallS > 0 {
			c.MaxWall = time.Duration(r.MaxWallS) * time.Second
		}
		if r.MapOrderAll != nil {
			c.MapOrderAll = *r.MapOrderAll
		}
		if r.TimeoutMs > 0 {
			c.SolverTimeoutMs = r.TimeoutMs
		}
		if r.Solver != "" {
			c.SolverBin = r.Solver
		}
		c.SymbolicNow = r.SymbolicNow
		c.AllowPanic = r.AllowPanic
		c.CoverModels = r.CoverModels
		c.DumpSMT = r.DumpSMT
		c.AbstractTime = r.AbstractTime
		c.SleepEnv = r.SleepEnv
		if r.Preempt > 0 {
			c.MaxPreempt = r.Preempt
		}
		if r.NoPreempt {
			c.MaxPreempt = 0
		}
		if os.Getenv("VERIF_NOPOR") == "1" {
			c.NoPOR = true
		}
		if c.SolverBin == "" {
			c.SolverBin = "z3-new"
		}
		if c.SolverTimeoutMs <= 0 {
			c.SolverTimeoutMs = 60000
		}
		if len(r.DebugPrefix) > 0 {
			c.Debug = true
			s, _ := NewSolver(c.SolverBin, c.SolverTimeoutMs, c.Seed)
			pr, _ := runPath(prog, c, h, r.DebugPrefix, Model{}, s)
			fmt.Fprintf(os.Stderr, "[debug] end=%s msg=%s violations=%d\n", pr.End, pr.EndMsg, len(pr.Violations))
			for _, v := range pr.Violations {
				fmt.Fprintf(os.Stderr, "[debug] violation %s %s %s\n", v.Kind, v.Label, v.Msg)
			}
			os.Exit(0)
		}
		e := &Explorer{prog: prog, cfg: c, harness: h, sem: sem}
		wg.Add(1)
		go func(i int, r RunSpec, e *Explorer) {
			defer wg.Done()
			res := e.Run()
			out.Results[i] = res
			fmt.Fprintf(os.Stderr, "[engine] %s: paths=%d ends=%v violations=%d complete=%v queries=%d wall=%.1fs\n",
				r.Func, res.Paths, res.Ends, len(res.Violations), res.Complete, res.Queries, res.WallSec)
		}(i, r, e)
	}
	wg.Wait()
	writeJSON(spec.Out, out)
}
