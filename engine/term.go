package main

// SMT terms: hash-consed DAG with eager constant folding. One TermBuilder per
// explored path (terms never cross paths), so no locking is needed.

import (
	"fmt"
	"math"
	"math/bits"
	"strings"
)

type SortKind int

const (
	KBool SortKind = iota
	KBV
	KFP // float64 only
)

type Sort struct {
	K SortKind
	W int
}

var BoolSort = Sort{KBool, 0}
var FPSort = Sort{KFP, 64}

func BV(w int) Sort { return Sort{KBV, w} }

func (s Sort) String() string {
	switch s.K {
	case KBool:
		return "Bool"
	case KBV:
		return fmt.Sprintf("(_ BitVec %d)", s.W)
	case KFP:
		return "(_ FloatingPoint 11 53)"
	}
	return "?"
}

type Term struct {
	id      int
	op      string // "var", "const", or SMT operator name
	sort    Sort
	args    []*Term
	isConst bool
	bv      uint64  // KBV / KBool(0/1) constant
	f       float64 // KFP constant
	name    string  // variable name
	param   int     // extract hi / extend amount etc
	param2  int
}

func (t *Term) IsConst() bool { return t.isConst }
func (t *Term) Bool() bool    { return t.bv != 0 }

type TermBuilder struct {
	tab    map[string]*Term
	next   int
	vars   []*Term
	varBy  map[string]*Term
	varsOf map[int][]*Term     // memo: variables occurring in a term
	dom    map[string][2]int64 // known small domains of variables (inclusive)
}

// VarsOf returns the variables occurring in t (memoised).
func (b *TermBuilder) VarsOf(t *Term) []*Term {
	if t.isConst {
		return nil
	}
	if t.op == "var" {
		return []*Term{t}
	}
	if b.varsOf == nil {
		b.varsOf = map[int][]*Term{}
	}
	if v, ok := b.varsOf[t.id]; ok {
		return v
	}
	seen := map[int]bool{}
	var out []*Term
	for _, a := range t.args {
		for _, v := range b.VarsOf(a) {
			if !seen[v.id] {
				seen[v.id] = true
				out = append(out, v)
			}
		}
	}
	b.varsOf[t.id] = out
	return out
}

func NewTermBuilder() *TermBuilder {
	return &TermBuilder{tab: map[string]*Term{}, varBy: map[string]*Term{}}
}

func mask(w int) uint64 {
	if w >= 64 {
		return ^uint64(0)
	}
	return (uint64(1) << uint(w)) - 1
}

func sext(v uint64, w int) int64 {
	if w >= 64 {
		return int64(v)
	}
	sh := uint(64 - w)
	return int64(v<<sh) >> sh
}

func (b *TermBuilder) intern(key string, mk func() *Term) *Term {
	if t, ok := b.tab[key]; ok {
		return t
	}
	t := mk()
	t.id = b.next
	b.next++
	b.tab[key] = t
	return t
}

func (b *TermBuilder) Var(name string, s Sort) *Term {
	if t, ok := b.varBy[name]; ok {
		if t.sort != s {
			panic(fmt.Sprintf("variable %s redeclared with different sort", name))
		}
		return t
	}
	t := &Term{op: "var", sort: s, name: name, id: b.next}
	b.next++
	b.varBy[name] = t
	b.vars = append(b.vars, t)
	return t
}

func (b *TermBuilder) BVConst(v uint64, w int) *Term {
	v &= mask(w)
	return b.intern(fmt.Sprintf("c%d:%d", w, v), func() *Term {
		return &Term{op: "const", sort: BV(w), isConst: true, bv: v}
	})
}

func (b *TermBuilder) BoolConst(v bool) *Term {
	x := uint64(0)
	if v {
		x = 1
	}
	return b.intern(fmt.Sprintf("cb:%d", x), func() *Term {
		return &Term{op: "const", sort: BoolSort, isConst: true, bv: x}
	})
}

func (b *TermBuilder) FPConst(f float64) *Term {
	return b.intern(fmt.Sprintf("cf:%d", math.Float64bits(f)), func() *Term {
		return &Term{op: "const", sort: FPSort, isConst: true, f: f}
	})
}

func (b *TermBuilder) mk(op string, s Sort, p1, p2 int, args ...*Term) *Term {
	var sb strings.Builder
	sb.WriteString(op)
	fmt.Fprintf(&sb, "/%d/%d/%d/%d", s.K, s.W, p1, p2)
	for _, a := range args {
		fmt.Fprintf(&sb, ",%d", a.id)
	}
	return b.intern(sb.String(), func() *Term {
		return &Term{op: op, sort: s, args: args, param: p1, param2: p2}
	})
}

// ---------- boolean ----------

func (b *TermBuilder) Not(x *Term) *Term {
	if x.isConst {
		return b.BoolConst(!x.Bool())
	}
	if x.op == "not" {
		return x.args[0]
	}
	return b.mk("not", BoolSort, 0, 0, x)
}

func (b *TermBuilder) And(x, y *Term) *Term {
	if x.isConst {
		if x.Bool() {
			return y
		}
		return x
	}
	if y.isConst {
		if y.Bool() {
			return x
		}
		return y
	}
	if x == y {
		return x
	}
	return b.mk("and", BoolSort, 0, 0, x, y)
}

func (b *TermBuilder) Or(x, y *Term) *Term {
	if x.isConst {
		if x.Bool() {
			return x
		}
		return y
	}
	if y.isConst {
		if y.Bool() {
			return y
		}
		return x
	}
	if x == y {
		return x
	}
	return b.mk("or", BoolSort, 0, 0, x, y)
}

func (b *TermBuilder) Ite(c, x, y *Term) *Term {
	if c.isConst {
		if c.Bool() {
			return x
		}
		return y
	}
	if x == y {
		return x
	}
	if x.sort != y.sort {
		panic("ite sort mismatch")
	}
	if x.sort.K == KBool && x.isConst && y.isConst {
		if x.Bool() {
			return c
		}
		return b.Not(c)
	}
	return b.mk("ite", x.sort, 0, 0, c, x, y)
}

func (b *TermBuilder) Eq(x, y *Term) *Term {
	if x.sort != y.sort {
		panic(fmt.Sprintf("eq sort mismatch %v %v", x.sort, y.sort))
	}
	if x == y && x.sort.K != KFP {
		return b.BoolConst(true)
	}
	if x.isConst && y.isConst {
		switch x.sort.K {
		case KFP:
			return b.BoolConst(x.f == y.f)
		default:
			return b.BoolConst(x.bv == y.bv)
		}
	}
	if x.sort.K == KFP {
		return b.mk("fp.eq", BoolSort, 0, 0, x, y)
	}
	if x.sort.K == KBool {
		if x.isConst {
			if x.Bool() {
				return y
			}
			return b.Not(y)
		}
		if y.isConst {
			if y.Bool() {
				return x
			}
			return b.Not(x)
		}
	}
	if x.id > y.id {
		x, y = y, x
	}
	return b.mk("=", BoolSort, 0, 0, x, y)
}

// ---------- bit-vectors ----------

func (b *TermBuilder) BVBin(op string, x, y *Term) *Term {
	w := x.sort.W
	if x.sort != y.sort || x.sort.K != KBV {
		panic(fmt.Sprintf("bvbin %s sort mismatch %v %v", op, x.sort, y.sort))
	}
	if x.isConst && y.isConst {
		a, c := x.bv, y.bv
		var r uint64
		ok := true
		switch op {
		case "bvadd":
			r = a + c
		case "bvsub":
			r = a - c
		case "bvmul":
			r = a * c
		case "bvand":
			r = a & c
		case "bvor":
			r = a | c
		case "bvxor":
			r = a ^ c
		case "bvshl":
			if c >= uint64(w) {
				r = 0
			} else {
				r = a << c
			}
		case "bvlshr":
			if c >= uint64(w) {
				r = 0
			} else {
				r = a >> c
			}
		case "bvashr":
			s := sext(a, w)
			if c >= uint64(w) {
				if s < 0 {
					r = ^uint64(0)
				} else {
					r = 0
				}
			} else {
				r = uint64(s >> c)
			}
		case "bvudiv":
			if c == 0 {
				ok = false
			} else {
				r = a / c
			}
		case "bvurem":
			if c == 0 {
				ok = false
			} else {
				r = a % c
			}
		case "bvsdiv":
			if c == 0 {
				ok = false
			} else {
				sa, sc := sext(a, w), sext(c, w)
				if sc == -1 {
					r = uint64(-sa)
				} else {
					r = uint64(sa / sc)
				}
			}
		case "bvsrem":
			if c == 0 {
				ok = false
			} else {
				sa, sc := sext(a, w), sext(c, w)
				if sc == -1 {
					r = 0
				} else {
					r = uint64(sa % sc)
				}
			}
		default:
			ok = false
		}
		if ok {
			return b.BVConst(r, w)
		}
	}
	// canonical operand order for commutative operators (more sharing, cheaper equalities)
	switch op {
	case "bvadd", "bvmul", "bvand", "bvor", "bvxor":
		if x.id > y.id {
			x, y = y, x
		}
	}
	// light identities
	switch op {
	case "bvadd", "bvor", "bvxor":
		if x.isConst && x.bv == 0 {
			return y
		}
		if y.isConst && y.bv == 0 {
			return x
		}
	case "bvsub", "bvshl", "bvlshr", "bvashr":
		if y.isConst && y.bv == 0 {
			return x
		}
	case "bvmul":
		if x.isConst && x.bv == 1 {
			return y
		}
		if y.isConst && y.bv == 1 {
			return x
		}
	case "bvand":
		if y.isConst && y.bv == mask(w) {
			return x
		}
		if x.isConst && x.bv == mask(w) {
			return y
		}
	}
	return b.mk(op, x.sort, 0, 0, x, y)
}

func (b *TermBuilder) BVNeg(x *Term) *Term {
	if x.isConst {
		return b.BVConst(-x.bv, x.sort.W)
	}
	return b.mk("bvneg", x.sort, 0, 0, x)
}

func (b *TermBuilder) BVNot(x *Term) *Term {
	if x.isConst {
		return b.BVConst(^x.bv, x.sort.W)
	}
	return b.mk("bvnot", x.sort, 0, 0, x)
}

// BVCmp: op in bvult bvule bvugt bvuge bvslt bvsle bvsgt bvsge
func (b *TermBuilder) BVCmp(op string, x, y *Term) *Term {
	if x.sort != y.sort || x.sort.K != KBV {
		panic(fmt.Sprintf("bvcmp %s sort mismatch %v %v", op, x.sort, y.sort))
	}
	w := x.sort.W
	if x.isConst && y.isConst {
		a, c := x.bv, y.bv
		sa, sc := sext(a, w), sext(c, w)
		var r bool
		switch op {
		case "bvult":
			r = a < c
		case "bvule":
			r = a <= c
		case "bvugt":
			r = a > c
		case "bvuge":
			r = a >= c
		case "bvslt":
			r = sa < sc
		case "bvsle":
			r = sa <= sc
		case "bvsgt":
			r = sa > sc
		case "bvsge":
			r = sa >= sc
		}
		return b.BoolConst(r)
	}
	if x == y {
		switch op {
		case "bvule", "bvuge", "bvsle", "bvsge":
			return b.BoolConst(true)
		default:
			return b.BoolConst(false)
		}
	}
	return b.mk(op, BoolSort, 0, 0, x, y)
}

func (b *TermBuilder) Extract(hi, lo int, x *Term) *Term {
	w := hi - lo + 1
	if lo == 0 && w == x.sort.W {
		return x
	}
	if x.isConst {
		return b.BVConst(x.bv>>uint(lo), w)
	}
	return b.mk("extract", BV(w), hi, lo, x)
}

func (b *TermBuilder) ZeroExt(x *Term, to int) *Term {
	if to == x.sort.W {
		return x
	}
	if to < x.sort.W {
		return b.Extract(to-1, 0, x)
	}
	if x.isConst {
		return b.BVConst(x.bv, to)
	}
	return b.mk("zero_extend", BV(to), to-x.sort.W, 0, x)
}

func (b *TermBuilder) SignExt(x *Term, to int) *Term {
	if to == x.sort.W {
		return x
	}
	if to < x.sort.W {
		return b.Extract(to-1, 0, x)
	}
	if x.isConst {
		return b.BVConst(uint64(sext(x.bv, x.sort.W)), to)
	}
	return b.mk("sign_extend", BV(to), to-x.sort.W, 0, x)
}

// ---------- floating point (float64, RNE) ----------

func (b *TermBuilder) FPBin(op string, x, y *Term) *Term {
	if x.isConst && y.isConst {
		switch op {
		case "fp.add":
			return b.FPConst(x.f + y.f)
		case "fp.sub":
			return b.FPConst(x.f - y.f)
		case "fp.mul":
			return b.FPConst(x.f * y.f)
		case "fp.div":
			return b.FPConst(x.f / y.f)
		}
	}
	if op == "fp.div" && y.isConst {
		// x / 2^k == x * 2^-k exactly (both are the correctly rounded value of the same real)
		// when 2^k and 2^-k are normal doubles; multipliers bit-blast far better than dividers.
		fr, ex := math.Frexp(y.f)
		if fr == 0.5 && ex > -1000 && ex < 1000 {
			return b.mk("fp.mul", FPSort, 0, 0, x, b.FPConst(1/y.f))
		}
	}
	return b.mk(op, FPSort, 0, 0, x, y)
}

func (b *TermBuilder) FPNeg(x *Term) *Term {
	if x.isConst {
		return b.FPConst(-x.f)
	}
	return b.mk("fp.neg", FPSort, 0, 0, x)
}

// FPCmp: fp.lt fp.leq fp.gt fp.geq fp.eq
func (b *TermBuilder) FPCmp(op string, x, y *Term) *Term {
	if x.isConst && y.isConst {
		var r bool
		switch op {
		case "fp.lt":
			r = x.f < y.f
		case "fp.leq":
			r = x.f <= y.f
		case "fp.gt":
			r = x.f > y.f
		case "fp.geq":
			r = x.f >= y.f
		case "fp.eq":
			r = x.f == y.f
		}
		return b.BoolConst(r)
	}
	return b.mk(op, BoolSort, 0, 0, x, y)
}

func (b *TermBuilder) FPIsNaN(x *Term) *Term {
	if x.isConst {
		return b.BoolConst(math.IsNaN(x.f))
	}
	return b.mk("fp.isNaN", BoolSort, 0, 0, x)
}

func (b *TermBuilder) FPIsInf(x *Term) *Term {
	if x.isConst {
		return b.BoolConst(math.IsInf(x.f, 0))
	}
	return b.mk("fp.isInfinite", BoolSort, 0, 0, x)
}

func (b *TermBuilder) FPIsNeg(x *Term) *Term { // sign bit set (incl -0), false for NaN
	if x.isConst {
		return b.BoolConst(!math.IsNaN(x.f) && math.Signbit(x.f))
	}
	return b.mk("fp.isNegative", BoolSort, 0, 0, x)
}

func (b *TermBuilder) FPIsZero(x *Term) *Term {
	if x.isConst {
		return b.BoolConst(x.f == 0)
	}
	return b.mk("fp.isZero", BoolSort, 0, 0, x)
}

// FPRound: mode RTP RTN RTZ RNE
func (b *TermBuilder) FPRound(mode string, x *Term) *Term {
	if x.isConst {
		switch mode {
		case "RTP":
			return b.FPConst(math.Ceil(x.f))
		case "RTN":
			return b.FPConst(math.Floor(x.f))
		case "RTZ":
			return b.FPConst(math.Trunc(x.f))
		case "RNE":
			return b.FPConst(math.RoundToEven(x.f))
		}
	}
	return b.mk("fp.roundToIntegral."+mode, FPSort, 0, 0, x)
}

// SIntToFP converts a signed bit-vector to float64 (RNE).
func (b *TermBuilder) SIntToFP(x *Term) *Term {
	if x.isConst {
		return b.FPConst(float64(sext(x.bv, x.sort.W)))
	}
	return b.mk("to_fp_signed", FPSort, 0, 0, x)
}

func (b *TermBuilder) UIntToFP(x *Term) *Term {
	if x.isConst {
		return b.FPConst(float64(x.bv))
	}
	return b.mk("to_fp_unsigned", FPSort, 0, 0, x)
}

// FPToSBV / FPToUBV are the raw SMT conversions (RTZ); callers wrap them in
// the range logic that reproduces amd64 behaviour.
func (b *TermBuilder) FPToSBV(x *Term, w int) *Term {
	return b.mk("fp.to_sbv", BV(w), w, 0, x)
}
func (b *TermBuilder) FPToUBV(x *Term, w int) *Term {
	return b.mk("fp.to_ubv", BV(w), w, 0, x)
}

// FPFromBits reinterprets a 64-bit vector as a float64 (math.Float64frombits).
func (b *TermBuilder) FPFromBits(x *Term) *Term {
	if x.isConst {
		return b.FPConst(math.Float64frombits(x.bv))
	}
	return b.mk("to_fp_bits", FPSort, 0, 0, x)
}

// ---------- printing ----------

func bvLit(v uint64, w int) string {
	if w%4 == 0 {
		return fmt.Sprintf("#x%0*x", w/4, v&mask(w))
	}
	return fmt.Sprintf("#b%0*b", w, v&mask(w))
}

func fpLit(f float64) string {
	bitsv := math.Float64bits(f)
	if math.IsNaN(f) {
		return "(_ NaN 11 53)"
	}
	s := bitsv >> 63
	e := (bitsv >> 52) & 0x7ff
	m := bitsv & ((1 << 52) - 1)
	return fmt.Sprintf("(fp #b%b #b%011b #x%013x)", s, e, m)
}

func (t *Term) ref() string {
	switch t.op {
	case "var":
		return "|" + t.name + "|"
	case "const":
		switch t.sort.K {
		case KBool:
			if t.bv != 0 {
				return "true"
			}
			return "false"
		case KBV:
			return bvLit(t.bv, t.sort.W)
		case KFP:
			return fpLit(t.f)
		}
	}
	return fmt.Sprintf("t%d", t.id)
}

func (t *Term) body() string {
	var sb strings.Builder
	args := func() {
		for _, a := range t.args {
			sb.WriteByte(' ')
			sb.WriteString(a.ref())
		}
	}
	switch t.op {
	case "extract":
		fmt.Fprintf(&sb, "((_ extract %d %d)", t.param, t.param2)
		args()
	case "zero_extend", "sign_extend":
		fmt.Fprintf(&sb, "((_ %s %d)", t.op, t.param)
		args()
	case "fp.add", "fp.sub", "fp.mul", "fp.div":
		fmt.Fprintf(&sb, "(%s RNE", t.op)
		args()
	case "fp.roundToIntegral.RTP", "fp.roundToIntegral.RTN", "fp.roundToIntegral.RTZ", "fp.roundToIntegral.RNE":
		fmt.Fprintf(&sb, "(fp.roundToIntegral %s", t.op[len("fp.roundToIntegral."):])
		args()
	case "to_fp_signed":
		sb.WriteString("((_ to_fp 11 53) RNE")
		args()
	case "to_fp_unsigned":
		sb.WriteString("((_ to_fp_unsigned 11 53) RNE")
		args()
	case "to_fp_bits":
		sb.WriteString("((_ to_fp 11 53)")
		args()
	case "fp.to_sbv":
		fmt.Fprintf(&sb, "((_ fp.to_sbv %d) RTZ", t.param)
		args()
	case "fp.to_ubv":
		fmt.Fprintf(&sb, "((_ fp.to_ubv %d) RTZ", t.param)
		args()
	default:
		sb.WriteString("(" + t.op)
		args()
	}
	sb.WriteByte(')')
	return sb.String()
}

// Emit writes declarations/definitions for every not-yet-defined node under t.
func (t *Term) Emit(has func(int) bool, set func(int), out *strings.Builder) {
	if has(t.id) || t.op == "const" {
		return
	}
	// iterative post-order to survive deep terms
	type fr struct {
		t *Term
		i int
	}
	st := []fr{{t, 0}}
	for len(st) > 0 {
		top := &st[len(st)-1]
		if has(top.t.id) || top.t.op == "const" {
			st = st[:len(st)-1]
			continue
		}
		if top.i < len(top.t.args) {
			a := top.t.args[top.i]
			top.i++
			if !has(a.id) && a.op != "const" {
				st = append(st, fr{a, 0})
			}
			continue
		}
		n := top.t
		set(n.id)
		if n.op == "var" {
			fmt.Fprintf(out, "(declare-const |%s| %s)\n", n.name, n.sort)
		} else {
			fmt.Fprintf(out, "(define-fun t%d () %s %s)\n", n.id, n.sort, n.body())
		}
		st = st[:len(st)-1]
	}
}

var _ = bits.Len64
