package main

// Happens-before data-race detection (vector clocks) for the interpreted goroutines. The schedule exploration treats
// plain loads/stores as invisible (partial-order reduction assumes data-race freedom); this detector checks that
// assumption on every explored path: two accesses to one memory cell or map by different goroutines, at least one a
// write, not ordered by happens-before, are reported as a violation (kind "race"). Every synchronisation operation is
// treated as acquire+release on its object, which over-approximates happens-before: no false race reports.

import (
	"fmt"

	"golang.org/x/tools/go/ssa"
)

type vclock []int

func (v vclock) get(i int) int {
	if i < len(v) {
		return v[i]
	}
	return 0
}

func (v *vclock) set(i, x int) {
	for len(*v) <= i {
		*v = append(*v, 0)
	}
	(*v)[i] = x
}

func (v *vclock) join(o vclock) {
	for i, x := range o {
		if x > v.get(i) {
			v.set(i, x)
		}
	}
}

type racePos struct {
	g   *GoR
	fn  *ssa.Function
	ins ssa.Instruction
}

type raceMeta struct {
	wG, wClk int // last write: goroutine id, its clock
	wPos     racePos
	reads    map[int]int // goroutine id -> clock of its last read since the last write
	rPos     map[int]racePos
}

func (ip *Interp) here() racePos { return racePos{ip.cur, ip.cur.curFn, ip.cur.curInstr} }

func (ip *Interp) posString(p racePos) string {
	if p.g == nil {
		return "?"
	}
	if p.ins == nil {
		return p.g.name
	}
	fn := ""
	if p.fn != nil {
		fn = p.fn.String() + " "
	}
	return p.g.name + " " + fn + ip.prog.Fset.Position(p.ins.Pos()).String()
}

func (ip *Interp) raceOn() bool { return len(ip.gs) > 1 && !ip.inInit && !ip.cfg.NoRace }

func (ip *Interp) curPos() string {
	g := ip.cur
	if g.curInstr == nil {
		return g.name
	}
	fn := ""
	if g.curFn != nil {
		fn = g.curFn.String() + " "
	}
	return g.name + " " + fn + ip.prog.Fset.Position(g.curInstr.Pos()).String()
}

// syncOp: acquire+release on a synchronisation object.
func (ip *Interp) syncOp(obj interface{}) {
	if !ip.raceOn() || obj == nil {
		return
	}
	g := ip.cur
	if ip.syncClocks == nil {
		ip.syncClocks = map[interface{}]*vclock{}
	}
	c := ip.syncClocks[obj]
	if c == nil {
		c = &vclock{}
		ip.syncClocks[obj] = c
	}
	g.vc.join(*c)
	c.join(g.vc)
	g.vc.set(g.id, g.vc.get(g.id)+1)
}

func (ip *Interp) clockOf(obj interface{}) *vclock {
	if ip.syncClocks == nil {
		ip.syncClocks = map[interface{}]*vclock{}
	}
	c := ip.syncClocks[obj]
	if c == nil {
		c = &vclock{}
		ip.syncClocks[obj] = c
	}
	return c
}

// syncAcquire: everything released on obj so far happens before what the current goroutine does next.
func (ip *Interp) syncAcquire(obj interface{}) {
	if !ip.raceOn() || obj == nil {
		return
	}
	ip.cur.vc.join(*ip.clockOf(obj))
}

// syncRelease: what the current goroutine did so far happens before later acquires of obj.
func (ip *Interp) syncRelease(obj interface{}) {
	if !ip.raceOn() || obj == nil {
		return
	}
	g := ip.cur
	ip.clockOf(obj).join(g.vc)
	g.vc.set(g.id, g.vc.get(g.id)+1)
}

func (ip *Interp) forkClock(parent, child *GoR) {
	child.vc = append(vclock{}, parent.vc...)
	child.vc.set(child.id, 1)
	parent.vc.set(parent.id, parent.vc.get(parent.id)+1)
}

// joinAll: the caller observes a quiescent system (harness-level Quiesce): everything that happened is ordered before it.
func (ip *Interp) joinAll() {
	for _, g := range ip.gs {
		ip.cur.vc.join(g.vc)
	}
}

func (ip *Interp) raceReport(what string, m *raceMeta, other racePos) {
	msg := fmt.Sprintf("data race on %s: %s  <->  %s", what, ip.curPos(), ip.posString(other))
	if ip.raceSeen == nil {
		ip.raceSeen = map[string]bool{}
	}
	if ip.raceSeen[msg] {
		return
	}
	ip.raceSeen[msg] = true
	ip.violation("race", "data-race", msg, ip.curModel)
}

func (ip *Interp) metaOf(key interface{}) *raceMeta {
	switch k := key.(type) {
	case *Cell:
		if k.rm == nil {
			k.rm = &raceMeta{wG: -1}
		}
		return k.rm
	case *MapObj:
		if k.rm == nil {
			k.rm = &raceMeta{wG: -1}
		}
		return k.rm
	}
	if ip.raceMetas == nil {
		ip.raceMetas = map[interface{}]*raceMeta{}
	}
	m := ip.raceMetas[key]
	if m == nil {
		m = &raceMeta{wG: -1}
		ip.raceMetas[key] = m
	}
	return m
}

func (ip *Interp) accessRead(key interface{}, what string) {
	if !ip.raceOn() {
		return
	}
	g := ip.cur
	m := ip.metaOf(key)
	if m.wG >= 0 && m.wG != g.id && m.wClk > g.vc.get(m.wG) {
		ip.raceReport(what, m, m.wPos)
	}
	if m.reads == nil {
		m.reads = map[int]int{}
		m.rPos = map[int]racePos{}
	}
	m.reads[g.id] = g.vc.get(g.id)
	m.rPos[g.id] = ip.here()
}

func (ip *Interp) accessWrite(key interface{}, what string) {
	if !ip.raceOn() {
		return
	}
	g := ip.cur
	m := ip.metaOf(key)
	if m.wG >= 0 && m.wG != g.id && m.wClk > g.vc.get(m.wG) {
		ip.raceReport(what, m, m.wPos)
	}
	for r, clk := range m.reads {
		if r != g.id && clk > g.vc.get(r) {
			ip.raceReport(what, m, m.rPos[r])
		}
	}
	m.wG, m.wClk, m.wPos = g.id, g.vc.get(g.id), ip.here()
	m.reads, m.rPos = nil, nil
}

// cellRead / cellWrite cover a cell and, for aggregates, its leaves.
func (ip *Interp) cellRead(c *Cell) {
	if c == nil || !ip.raceOn() {
		return
	}
	if c.elems != nil {
		for _, e := range c.elems {
			ip.cellRead(e)
		}
		return
	}
	ip.accessRead(c, "a variable")
}

func (ip *Interp) cellWrite(c *Cell) {
	if c == nil || !ip.raceOn() {
		return
	}
	if c.elems != nil {
		for _, e := range c.elems {
			ip.cellWrite(e)
		}
		return
	}
	ip.accessWrite(c, "a variable")
}

var _ = ssa.NewProgram
