package main

import (
	"fmt"
	"go/types"
	"math"
	"strconv"
	"strings"

	"golang.org/x/tools/go/ssa"
)

type intrinsicFn func(ip *Interp, fn *ssa.Function, args []Value) Value

func nanValue() float64 { return math.NaN() }

// fallThrough is returned by an intrinsic that declines; the real SSA body is then executed.
var fallThrough = &Opaque{kind: "fallthrough"}

const zenoPath = "github.com/internetarchive/Zeno"

func fnKey(fn *ssa.Function) string {
	if o := fn.Origin(); o != nil {
		fn = o
	}
	return fn.String()
}

func pkgPathOf(fn *ssa.Function) string {
	if o := fn.Origin(); o != nil {
		fn = o
	}
	if fn.Pkg != nil {
		return fn.Pkg.Pkg.Path()
	}
	if fn.Object() != nil && fn.Object().Pkg() != nil {
		return fn.Object().Pkg().Path()
	}
	// methods of instantiated/synthetic functions
	if recv := fn.Signature.Recv(); recv != nil {
		t := recv.Type()
		if p, ok := t.(*types.Pointer); ok {
			t = p.Elem()
		}
		if n, ok := t.(*types.Named); ok && n.Obj().Pkg() != nil {
			return n.Obj().Pkg().Path()
		}
	}
	return ""
}

func (ip *Interp) lookupIntrinsic(fn *ssa.Function) intrinsicFn {
	key := fnKey(fn)
	if h, ok := intrinsics[key]; ok {
		return h
	}
	path := pkgPathOf(fn)
	if strings.HasSuffix(path, "/verifrt") {
		name := fn.Name()
		if h, ok := verifrtFns[name]; ok {
			return h
		}
		ip.unsupported("unknown verifrt function " + name)
	}
	// an explicit model beats the blanket stub of its package
	if ip.cfg.ModelFor != nil {
		if m, ok := ip.cfg.ModelFor[key]; ok {
			return func(ip *Interp, _ *ssa.Function, args []Value) Value {
				return ip.callFunction(m, args, nil)
			}
		}
	}
	if ip.cfg.isStubPkg(path) {
		return stubZero
	}
	return nil
}

// stubZero ignores the call and returns zero values.
func stubZero(ip *Interp, fn *ssa.Function, args []Value) Value {
	return ip.zeroResults(fn)
}

func (ip *Interp) leaf0(c *Cell) *Cell {
	for c != nil && c.elems != nil {
		var next *Cell
		for _, e := range c.elems {
			if e.elems == nil || len(e.elems) > 0 {
				next = e
				break
			}
		}
		if next == nil {
			return nil
		}
		c = next
	}
	return c
}

func (ip *Interp) stateInt(c *Cell) int64 {
	l := ip.leaf0(c)
	t := l.v.(*Term)
	if !t.isConst {
		ip.unsupported("symbolic sync state")
	}
	return sext(t.bv, t.sort.W)
}

func (ip *Interp) setStateInt(c *Cell, v int64) {
	l := ip.leaf0(c)
	t := l.v.(*Term)
	l.v = ip.tb.BVConst(uint64(v), t.sort.W)
}

func recvCell(ip *Interp, args []Value) *Cell {
	p := args[0].(Ptr)
	if p.c == nil {
		ip.goPanic("nil pointer dereference (sync receiver)")
	}
	return p.c
}

type ctxObj struct {
	key, val  Value
	parent    *ctxObj
	children  []*ctxObj
	done      *ChanObj
	cancelled bool
	deadline  bool // made by WithTimeout/WithDeadline: the environment may let it expire (verifrt.ExpireDeadline)
	expired   bool
	id        int
}

var ctxType = &opaqueType{"context"}
var errType = &opaqueType{"error"}

func (ip *Interp) newCtx(parent *ctxObj) *ctxObj {
	ip.objID++
	c := &ctxObj{parent: parent, id: ip.objID}
	ip.objID++
	c.done = &ChanObj{id: ip.objID, cap: 0, elemT: types.NewStruct(nil, nil)}
	if parent != nil {
		parent.children = append(parent.children, c)
		if parent.cancelled {
			c.cancelled = true
			c.done.closed = true
		}
	}
	return c
}

func (ip *Interp) cancelCtx(c *ctxObj) {
	if c.cancelled {
		return
	}
	c.cancelled = true
	// closing wakes receivers; no extra sched point per child
	c.done.closed = true
	for len(c.done.recvq2) > 0 {
		ip.complete(c.done.recvq2[0], ip.zero(c.done.elemT), false, false)
	}
	for _, ch := range c.children {
		ip.cancelCtx(ch)
	}
}

func (ip *Interp) opaqueErr(kind string) Value {
	ip.objID++
	return Iface{t: errType, v: &Opaque{kind: kind, id: ip.objID}}
}

func (ip *Interp) opaqueInvoke(recv Iface, method string, args []Value, cc *ssa.CallCommon) Value {
	switch o := recv.v.(type) {
	case *ctxObj:
		switch method {
		case "Done":
			return o.done
		case "Err":
			ip.schedPoint("ctx.Err", o.done)
			if o.cancelled {
				ip.syncAcquire(o.done)
				return ip.ctxCanceledErr()
			}
			return Iface{}
		case "Value":
			for c := o; c != nil; c = c.parent {
				if c.key != nil && ip.branch(ip.valuesEqual(c.key, args[0])) {
					return c.val
				}
			}
			return Iface{}
		case "Deadline":
			has := false
			for c := o; c != nil; c = c.parent {
				has = has || c.deadline
			}
			return Tuple{ip.zero(cc.Signature().Results().At(0).Type()), ip.tb.BoolConst(has)}
		}
	case *Opaque:
		switch method {
		case "Error", "String":
			return &Str{s: "<" + o.kind + ">"}
		case "Unwrap":
			return Iface{}
		case "Timeout", "Temporary":
			return ip.tb.BoolConst(false)
		}
	}
	ip.unsupported(fmt.Sprintf("opaque invoke %s.%s", recv.t, method))
	return nil
}

func (ip *Interp) ctxCanceledErr() Value {
	if ip.ctxCanceled == nil {
		ip.ctxCanceled = ip.opaqueErr("context canceled")
	}
	return ip.ctxCanceled
}

func mkCtxValue(c *ctxObj) Value { return Iface{t: ctxType, v: c} }

// timeNowValue returns a time.Time with the monotonic bit set: wall = hasMonotonic | sec<<30, ext = ns.
func (ip *Interp) timeNowValue(ext *Term) Value {
	const hasMonotonic = uint64(1) << 63
	// wall seconds since 1885: pick 2025-ish; value itself is irrelevant to monotonic comparisons
	wallSec := uint64(4420000000) // seconds since Jan 1 1885
	return Agg{elems: []Value{ip.tb.BVConst(hasMonotonic|wallSec<<30, 64), ext, Ptr{}}}
}

var intrinsics map[string]intrinsicFn
var verifrtFns map[string]intrinsicFn

func termArg(v Value) *Term { return v.(*Term) }

func strArg(ip *Interp, v Value) string {
	s := v.(*Str)
	if s.sym {
		ip.unsupported("symbolic string where a constant name/label is required")
	}
	return s.s
}

func (ip *Interp) uniqueName(name string) string {
	n := ip.nameCount[name]
	ip.nameCount[name] = n + 1
	if n == 0 {
		return name
	}
	return fmt.Sprintf("%s#%d", name, n)
}

// setModelValue fixes the value of a fresh (so far unconstrained) variable in the path's model.
func (ip *Interp) setModelValue(name string, v mval) {
	if ip.curModel == nil {
		return
	}
	m := Model{}
	for k, x := range ip.curModel {
		m[k] = x
	}
	m[name] = v
	ip.curModel = m
}

func (ip *Interp) setDom(name string, lo, hi int64) {
	if ip.tb.dom == nil {
		ip.tb.dom = map[string][2]int64{}
	}
	ip.tb.dom[name] = [2]int64{lo, hi}
}

func (ip *Interp) newSym(name, kind string, s Sort) *Term {
	name = ip.uniqueName(name)
	t := ip.tb.Var(name, s)
	switch {
	case s.K == KBool:
		ip.setDom(name, 0, 1)
	case s.K == KBV && s.W <= 8:
		ip.setDom(name, 0, int64(mask(s.W)))
	}
	sv := &symVar{Name: name, Kind: kind, Terms: []*Term{t}, Width: s.W}
	ip.symvars = append(ip.symvars, sv)
	return t
}

func init() {
	intrinsics = map[string]intrinsicFn{}
	verifrtFns = map[string]intrinsicFn{}
	V := verifrtFns
	mkInt := func(kind string, w int) intrinsicFn {
		return func(ip *Interp, fn *ssa.Function, args []Value) Value {
			return ip.newSym(strArg(ip, args[0]), kind, BV(w))
		}
	}
	V["Int"] = mkInt("int", 64)
	V["Int64"] = mkInt("int", 64)
	V["Int32"] = mkInt("int", 32)
	V["Uint64"] = mkInt("uint", 64)
	V["Uint32"] = mkInt("uint", 32)
	V["Uint8"] = mkInt("uint", 8)
	V["Bool"] = func(ip *Interp, fn *ssa.Function, args []Value) Value {
		return ip.newSym(strArg(ip, args[0]), "bool", BoolSort)
	}
	V["Float64"] = func(ip *Interp, fn *ssa.Function, args []Value) Value {
		return ip.newSym(strArg(ip, args[0]), "float64", FPSort)
	}
	V["String"] = func(ip *Interp, fn *ssa.Function, args []Value) Value {
		name := ip.uniqueName(strArg(ip, args[0]))
		maxLen := int(termArg(args[1]).bv)
		n := ip.tb.Var(name+".len", BV(64))
		sv := &symVar{Name: name, Kind: "string", Terms: []*Term{n}}
		ip.symvars = append(ip.symvars, sv)
		ip.assume(ip.tb.BVCmp("bvule", n, ip.tb.BVConst(uint64(maxLen), 64)))
		l := ip.concretize(n, 0, maxLen)
		bs := make([]*Term, l)
		for i := range bs {
			bs[i] = ip.tb.Var(fmt.Sprintf("%s[%d]", name, i), BV(8))
			ip.setDom(bs[i].name, 0, 255)
		}
		sv.Terms = append(sv.Terms, bs...)
		sv.Len = l
		if l == 0 {
			return &Str{}
		}
		return &Str{b: bs, sym: true}
	}
	V["Choice"] = func(ip *Interp, fn *ssa.Function, args []Value) Value {
		n := int(termArg(args[1]).bv)
		t := ip.newSym(strArg(ip, args[0]), "int", BV(64))
		// a fresh unconstrained variable: every value 0..n-1 is feasible, no solver call needed
		k := ip.choose(n)
		ip.addPC(ip.tb.Eq(t, ip.tb.BVConst(uint64(k), 64)))
		ip.setModelValue(t.name, mval{bv: uint64(k)})
		return ip.intConst(k, 64)
	}
	V["IntRange"] = func(ip *Interp, fn *ssa.Function, args []Value) Value {
		lo, hi := sext(termArg(args[1]).bv, 64), sext(termArg(args[2]).bv, 64)
		t := ip.newSym(strArg(ip, args[0]), "int", BV(64))
		if hi-lo < 4096 && lo >= 0 {
			ip.setDom(t.name, lo, hi)
		}
		ip.assume(ip.tb.And(ip.tb.BVCmp("bvsge", t, ip.tb.BVConst(uint64(lo), 64)), ip.tb.BVCmp("bvsle", t, ip.tb.BVConst(uint64(hi), 64))))
		return t
	}
	V["Assume"] = func(ip *Interp, fn *ssa.Function, args []Value) Value {
		ip.assume(termArg(args[0]))
		return nil
	}
	V["Assert"] = func(ip *Interp, fn *ssa.Function, args []Value) Value {
		ip.assert(termArg(args[0]), strArg(ip, args[1]))
		return nil
	}
	V["Cover"] = func(ip *Interp, fn *ssa.Function, args []Value) Value {
		ip.cover(strArg(ip, args[0]))
		return nil
	}
	V["CoverIf"] = func(ip *Interp, fn *ssa.Function, args []Value) Value {
		c := termArg(args[0])
		label := strArg(ip, args[1])
		if ip.res.Covers[label] {
			return nil
		}
		if c.isConst {
			if c.Bool() {
				ip.cover(label)
			}
			return nil
		}
		if v, ok := ip.evalBool(c); ok && v {
			ip.res.Covers[label] = true
		} else if r, _ := ip.query(c); r == "sat" {
			// witness exists on this path; do not constrain the path
			ip.res.Covers[label] = true
		}
		return nil
	}
	V["Unwind"] = func(ip *Interp, fn *ssa.Function, args []Value) Value {
		ip.cur.unwind = int(termArg(args[0]).bv)
		return nil
	}
	V["Preemptions"] = func(ip *Interp, fn *ssa.Function, args []Value) Value {
		ip.maxPreempt = int(termArg(args[0]).bv)
		return nil
	}
	V["EnvTicks"] = func(ip *Interp, fn *ssa.Function, args []Value) Value {
		ip.conc.envTicks = int(termArg(args[0]).bv)
		ip.syncRelease(ip.conc) // the environment fires timers after what the harness did so far
		// granting timer firings changes what every goroutine waiting on a timer can do: depends on everything
		ip.schedPoint("EnvTicks")
		return nil
	}
	// EnvTicksEach(n): time passes - every timer (each ticker, each time.After) may fire n times
	V["EnvTicksEach"] = func(ip *Interp, fn *ssa.Function, args []Value) Value {
		ip.conc.envEpoch++
		ip.conc.envEach = int(termArg(args[0]).bv)
		ip.syncRelease(ip.conc)
		ip.schedPoint("EnvTicksEach")
		return nil
	}
	V["MapOrderAll"] = func(ip *Interp, fn *ssa.Function, args []Value) Value {
		ip.opt.MapOrderAll = termArg(args[0]).Bool()
		return nil
	}
	V["Symbolic"] = func(ip *Interp, fn *ssa.Function, args []Value) Value {
		return ip.tb.BoolConst(true)
	}
	V["Note"] = func(ip *Interp, fn *ssa.Function, args []Value) Value {
		ip.res.Notes = append(ip.res.Notes, strArg(ip, args[0]))
		return nil
	}
	V["Tag"] = func(ip *Interp, fn *ssa.Function, args []Value) Value {
		ip.tag = strArg(ip, args[0])
		return nil
	}
	V["Settle"] = func(ip *Interp, fn *ssa.Function, args []Value) Value { return nil }
	// WakeSleepers: time passes: every goroutine inside time.Sleep (sleep_env mode) wakes up.
	V["WakeSleepers"] = func(ip *Interp, fn *ssa.Function, args []Value) Value {
		ip.syncRelease(ip.conc)
		for _, g := range ip.gs {
			if !g.done && g.sleeping {
				g.sleepWake = true
			}
		}
		ip.schedPoint("WakeSleepers")
		return nil
	}
	// ExpireDeadline(ctx): the environment lets the nearest pending deadline on ctx's chain expire (a request that
	// takes longer than its context allows); false if the chain carries no deadline.
	V["ExpireDeadline"] = func(ip *Interp, fn *ssa.Function, args []Value) Value {
		iv, _ := args[0].(Iface)
		c, _ := iv.v.(*ctxObj)
		for ; c != nil; c = c.parent {
			if c.deadline && !c.cancelled {
				ip.schedPoint("deadline")
				var rel func(x *ctxObj)
				rel = func(x *ctxObj) {
					ip.syncRelease(x.done)
					for _, ch := range x.children {
						rel(ch)
					}
				}
				rel(c)
				c.expired = true
				ip.cancelCtx(c)
				return ip.tb.BoolConst(true)
			}
		}
		return ip.tb.BoolConst(false)
	}
	V["ResetReplay"] = func(ip *Interp, fn *ssa.Function, args []Value) Value { return nil }
	V["Daemon"] = func(ip *Interp, fn *ssa.Function, args []Value) Value {
		ip.cur.daemon = true
		return nil
	}
	V["Quiesce"] = func(ip *Interp, fn *ssa.Function, args []Value) Value {
		g := ip.cur
		g.pending = &pendingOp{all: true}
		ip.block(func() bool { return len(ip.runnable(g)) == 0 }, "quiesce")
		ip.joinAll()
		return nil
	}
	V["NumBlocked"] = func(ip *Interp, fn *ssa.Function, args []Value) Value {
		n := 0
		for _, g := range ip.gs {
			if g != ip.cur && !g.done && !g.daemon {
				n++
			}
		}
		return ip.intConst(n, 64)
	}
	V["WouldBlock"] = func(ip *Interp, fn *ssa.Function, args []Value) (ret Value) {
		g := ip.cur
		g.wouldBlock++
		depth := ip.depth
		defer func() {
			g.wouldBlock--
			if r := recover(); r != nil {
				if _, ok := r.(*BlockedForever); ok {
					ip.unregister(g)
					ip.depth = depth
					ret = ip.tb.BoolConst(true)
					return
				}
				panic(r)
			}
		}()
		ip.callValue(args[0], nil, nil)
		return ip.tb.BoolConst(false)
	}
	V["Go"] = func(ip *Interp, fn *ssa.Function, args []Value) Value {
		ip.spawn(&deferred{fn: args[0]})
		return nil
	}
	V["All"] = func(ip *Interp, fn *ssa.Function, args []Value) Value {
		sl := args[0].(Slice)
		r := ip.tb.BoolConst(true)
		for i := 0; i < sl.len; i++ {
			r = ip.tb.And(r, ip.load(sl.arr.elems[sl.off+i]).(*Term))
		}
		return r
	}
	V["Any"] = func(ip *Interp, fn *ssa.Function, args []Value) Value {
		sl := args[0].(Slice)
		r := ip.tb.BoolConst(false)
		for i := 0; i < sl.len; i++ {
			r = ip.tb.Or(r, ip.load(sl.arr.elems[sl.off+i]).(*Term))
		}
		return r
	}
	V["Implies"] = func(ip *Interp, fn *ssa.Function, args []Value) Value {
		return ip.tb.Or(ip.tb.Not(termArg(args[0])), termArg(args[1]))
	}
	V["IteF"] = func(ip *Interp, fn *ssa.Function, args []Value) Value {
		return ip.tb.Ite(termArg(args[0]), termArg(args[1]), termArg(args[2]))
	}
	V["IteI"] = V["IteF"]
	V["IsNaN"] = func(ip *Interp, fn *ssa.Function, args []Value) Value {
		return ip.tb.FPIsNaN(termArg(args[0]))
	}
	V["IsInf"] = func(ip *Interp, fn *ssa.Function, args []Value) Value {
		return ip.tb.FPIsInf(termArg(args[0]))
	}

	I := intrinsics
	// ----- sync.Mutex / RWMutex -----
	lock := func(ip *Interp, fn *ssa.Function, args []Value) Value {
		c := recvCell(ip, args)
		ip.schedPoint("Lock", c)
		ip.block(func() bool { return ip.stateInt(c) == 0 }, "Mutex.Lock")
		ip.setStateInt(c, -1)
		return nil
	}
	unlock := func(ip *Interp, fn *ssa.Function, args []Value) Value {
		c := recvCell(ip, args)
		if ip.stateInt(c) != -1 {
			ip.goPanic("sync: unlock of unlocked mutex")
		}
		ip.syncOp(c) // release before the lock becomes available
		ip.setStateInt(c, 0)
		ip.schedPoint("Unlock", c)
		return nil
	}
	I["(*sync.Mutex).Lock"] = lock
	I["(*sync.Mutex).Unlock"] = unlock
	I["(*sync.RWMutex).Lock"] = lock
	I["(*sync.RWMutex).Unlock"] = unlock
	I["(*sync.Mutex).TryLock"] = func(ip *Interp, fn *ssa.Function, args []Value) Value {
		c := recvCell(ip, args)
		ip.schedPoint("TryLock", c)
		if ip.stateInt(c) == 0 {
			ip.setStateInt(c, -1)
			return ip.tb.BoolConst(true)
		}
		return ip.tb.BoolConst(false)
	}
	I["(*sync.RWMutex).RLock"] = func(ip *Interp, fn *ssa.Function, args []Value) Value {
		c := recvCell(ip, args)
		ip.schedPoint("RLock", c)
		ip.block(func() bool { return ip.stateInt(c) >= 0 }, "RWMutex.RLock")
		ip.setStateInt(c, ip.stateInt(c)+1)
		return nil
	}
	I["(*sync.RWMutex).RUnlock"] = func(ip *Interp, fn *ssa.Function, args []Value) Value {
		c := recvCell(ip, args)
		if ip.stateInt(c) <= 0 {
			ip.goPanic("sync: RUnlock of unlocked RWMutex")
		}
		ip.syncOp(c)
		ip.setStateInt(c, ip.stateInt(c)-1)
		ip.schedPoint("RUnlock", c)
		return nil
	}
	// ----- sync.WaitGroup -----
	I["(*sync.WaitGroup).Add"] = func(ip *Interp, fn *ssa.Function, args []Value) Value {
		c := recvCell(ip, args)
		d := termArg(args[1])
		if !d.isConst {
			ip.unsupported("symbolic WaitGroup delta")
		}
		ip.schedPoint("WaitGroup.Add", c)
		n := ip.stateInt(c) + sext(d.bv, d.sort.W)
		if n < 0 {
			ip.goPanic("sync: negative WaitGroup counter")
		}
		ip.setStateInt(c, n)
		return nil
	}
	I["(*sync.WaitGroup).Done"] = func(ip *Interp, fn *ssa.Function, args []Value) Value {
		c := recvCell(ip, args)
		ip.schedPoint("WaitGroup.Done", c)
		n := ip.stateInt(c) - 1
		if n < 0 {
			ip.goPanic("sync: negative WaitGroup counter")
		}
		ip.setStateInt(c, n)
		return nil
	}
	I["(*sync.WaitGroup).Wait"] = func(ip *Interp, fn *ssa.Function, args []Value) Value {
		c := recvCell(ip, args)
		ip.schedPoint("WaitGroup.Wait", c)
		ip.block(func() bool { return ip.stateInt(c) == 0 }, "WaitGroup.Wait")
		return nil
	}
	// ----- sync/atomic primitives -----
	for _, ty := range []string{"Int32", "Int64", "Uint32", "Uint64", "Uintptr"} {
		I["sync/atomic.Load"+ty] = func(ip *Interp, fn *ssa.Function, args []Value) Value {
			ip.schedPoint("atomic.Load", args[0].(Ptr).c)
			return ip.load(args[0].(Ptr).c)
		}
		I["sync/atomic.Store"+ty] = func(ip *Interp, fn *ssa.Function, args []Value) Value {
			ip.schedPoint("atomic.Store", args[0].(Ptr).c)
			ip.store(args[0].(Ptr).c, args[1])
			return nil
		}
		I["sync/atomic.Add"+ty] = func(ip *Interp, fn *ssa.Function, args []Value) Value {
			ip.schedPoint("atomic.Add", args[0].(Ptr).c)
			c := args[0].(Ptr).c
			n := ip.tb.BVBin("bvadd", ip.load(c).(*Term), termArg(args[1]))
			ip.store(c, n)
			return n
		}
		I["sync/atomic.Swap"+ty] = func(ip *Interp, fn *ssa.Function, args []Value) Value {
			ip.schedPoint("atomic.Swap", args[0].(Ptr).c)
			c := args[0].(Ptr).c
			old := ip.load(c)
			ip.store(c, args[1])
			return old
		}
		I["sync/atomic.CompareAndSwap"+ty] = func(ip *Interp, fn *ssa.Function, args []Value) Value {
			ip.schedPoint("atomic.CAS", args[0].(Ptr).c)
			c := args[0].(Ptr).c
			if ip.branch(ip.tb.Eq(ip.load(c).(*Term), termArg(args[1]))) {
				ip.store(c, args[2])
				return ip.tb.BoolConst(true)
			}
			return ip.tb.BoolConst(false)
		}
		I["sync/atomic.And"+ty] = func(ip *Interp, fn *ssa.Function, args []Value) Value {
			ip.schedPoint("atomic.And", args[0].(Ptr).c)
			c := args[0].(Ptr).c
			old := ip.load(c).(*Term)
			ip.store(c, ip.tb.BVBin("bvand", old, termArg(args[1])))
			return old
		}
		I["sync/atomic.Or"+ty] = func(ip *Interp, fn *ssa.Function, args []Value) Value {
			ip.schedPoint("atomic.Or", args[0].(Ptr).c)
			c := args[0].(Ptr).c
			old := ip.load(c).(*Term)
			ip.store(c, ip.tb.BVBin("bvor", old, termArg(args[1])))
			return old
		}
	}
	I["sync/atomic.LoadPointer"] = func(ip *Interp, fn *ssa.Function, args []Value) Value {
		ip.schedPoint("atomic.LoadPointer", args[0].(Ptr).c)
		return ip.load(args[0].(Ptr).c)
	}
	I["sync/atomic.StorePointer"] = func(ip *Interp, fn *ssa.Function, args []Value) Value {
		ip.schedPoint("atomic.StorePointer", args[0].(Ptr).c)
		ip.store(args[0].(Ptr).c, args[1])
		return nil
	}
	// ----- sync.Pool: no pooling (Get always allocates through New) -----
	I["(*sync.Pool).Get"] = func(ip *Interp, fn *ssa.Function, args []Value) Value {
		c := recvCell(ip, args)
		// struct { noCopy; local; localSize; victim; victimSize; New func() any }: New is the last field
		nf := ip.load(c.elems[len(c.elems)-1])
		if cl, ok := nf.(*Closure); ok && cl != nil {
			return ip.callValue(cl, nil, nil)
		}
		return Iface{}
	}
	I["(*sync.Pool).Put"] = stubZero
	// ----- sync.Map -----
	smap := func(ip *Interp, args []Value) *MapObj {
		c := recvCell(ip, args)
		if m, ok := ip.extra[c].(*MapObj); ok {
			return m
		}
		ip.objID++
		m := &MapObj{id: ip.objID}
		ip.extra[c] = m
		return m
	}
	anyZero := Iface{}
	I["(*sync.Map).Load"] = func(ip *Interp, fn *ssa.Function, args []Value) Value {
		ip.schedPoint("sync.Map.Load", recvCell(ip, args))
		v, ok := ip.mapGet(smap(ip, args), args[1])
		if !ok {
			return Tuple{anyZero, ip.tb.BoolConst(false)}
		}
		return Tuple{v, ip.tb.BoolConst(true)}
	}
	I["(*sync.Map).Store"] = func(ip *Interp, fn *ssa.Function, args []Value) Value {
		ip.schedPoint("sync.Map.Store", recvCell(ip, args))
		ip.mapSet(smap(ip, args), args[1], args[2])
		return nil
	}
	I["(*sync.Map).LoadOrStore"] = func(ip *Interp, fn *ssa.Function, args []Value) Value {
		ip.schedPoint("sync.Map.LoadOrStore", recvCell(ip, args))
		m := smap(ip, args)
		if v, ok := ip.mapGet(m, args[1]); ok {
			return Tuple{v, ip.tb.BoolConst(true)}
		}
		m.entries = append(m.entries, &mapEntry{k: args[1], v: args[2]})
		return Tuple{args[2], ip.tb.BoolConst(false)}
	}
	I["(*sync.Map).LoadAndDelete"] = func(ip *Interp, fn *ssa.Function, args []Value) Value {
		ip.schedPoint("sync.Map.LoadAndDelete", recvCell(ip, args))
		m := smap(ip, args)
		if v, ok := ip.mapGet(m, args[1]); ok {
			ip.mapDelete(m, args[1])
			return Tuple{v, ip.tb.BoolConst(true)}
		}
		return Tuple{anyZero, ip.tb.BoolConst(false)}
	}
	I["(*sync.Map).Delete"] = func(ip *Interp, fn *ssa.Function, args []Value) Value {
		ip.schedPoint("sync.Map.Delete", recvCell(ip, args))
		ip.mapDelete(smap(ip, args), args[1])
		return nil
	}
	I["(*sync.Map).Swap"] = func(ip *Interp, fn *ssa.Function, args []Value) Value {
		ip.schedPoint("sync.Map.Swap", recvCell(ip, args))
		m := smap(ip, args)
		if v, ok := ip.mapGet(m, args[1]); ok {
			ip.mapSet(m, args[1], args[2])
			return Tuple{v, ip.tb.BoolConst(true)}
		}
		m.entries = append(m.entries, &mapEntry{k: args[1], v: args[2]})
		return Tuple{anyZero, ip.tb.BoolConst(false)}
	}
	I["(*sync.Map).Range"] = func(ip *Interp, fn *ssa.Function, args []Value) Value {
		ip.schedPoint("sync.Map.Range", recvCell(ip, args))
		m := smap(ip, args)
		it := &rangeIter{m: m, visited: map[*mapEntry]bool{}}
		for {
			var remaining []*mapEntry
			for _, e := range m.entries {
				if !it.visited[e] {
					remaining = append(remaining, e)
				}
			}
			if len(remaining) == 0 {
				return nil
			}
			k := 0
			if ip.opt.MapOrderAll && len(remaining) > 1 {
				k = ip.choose(len(remaining))
			}
			e := remaining[k]
			it.visited[e] = true
			r := ip.callValue(args[1], []Value{e.k, e.v}, nil).(*Term)
			if !ip.branch(r) {
				return nil
			}
		}
	}
	I["(*sync.Map).Clear"] = func(ip *Interp, fn *ssa.Function, args []Value) Value {
		ip.schedPoint("sync.Map.Clear", recvCell(ip, args))
		smap(ip, args).entries = nil
		return nil
	}
	// ----- context -----
	I["context.Background"] = func(ip *Interp, fn *ssa.Function, args []Value) Value {
		if ip.bgCtx == nil {
			ip.bgCtx = ip.newCtx(nil)
		}
		return mkCtxValue(ip.bgCtx)
	}
	I["context.TODO"] = I["context.Background"]
	withCancel := func(ip *Interp, fn *ssa.Function, args []Value) Value {
		piv := args[0].(Iface)
		parent, ok := piv.v.(*ctxObj)
		if !ok {
			ip.unsupported("context.WithCancel on non-engine context")
		}
		c := ip.newCtx(parent)
		cancel := &Closure{name: "cancel", native: func(ip *Interp, a []Value) Value {
			ip.schedPoint("cancel")
			var rel func(x *ctxObj)
			rel = func(x *ctxObj) {
				ip.syncRelease(x.done)
				for _, ch := range x.children {
					rel(ch)
				}
			}
			rel(c)
			ip.cancelCtx(c)
			return nil
		}}
		return Tuple{mkCtxValue(c), cancel}
	}
	I["context.WithValue"] = func(ip *Interp, fn *ssa.Function, args []Value) Value {
		piv := args[0].(Iface)
		parent, ok := piv.v.(*ctxObj)
		if !ok {
			ip.unsupported("context.WithValue on non-engine context")
		}
		c := ip.newCtx(parent)
		c.done = parent.done // a value context shares its parent's cancellation
		c.key, c.val = args[1], args[2]
		return mkCtxValue(c)
	}
	withDeadline := func(ip *Interp, fn *ssa.Function, args []Value) Value {
		t := withCancel(ip, fn, args).(Tuple)
		t[0].(Iface).v.(*ctxObj).deadline = true
		return t
	}
	I["context.WithCancel"] = withCancel
	I["context.WithTimeout"] = withDeadline
	I["context.WithDeadline"] = withDeadline
	// ----- time -----
	I["time.Now"] = func(ip *Interp, fn *ssa.Function, args []Value) Value {
		ip.nowCount++
		var ext *Term
		if ip.opt.SymbolicNow {
			ext = ip.newSym("time.Now", "int", BV(64))
			if ip.lastNow != nil {
				ip.assume(ip.tb.BVCmp("bvsge", ext, ip.lastNow))
			} else {
				ip.assume(ip.tb.BVCmp("bvsge", ext, ip.tb.BVConst(0, 64)))
			}
			ip.assume(ip.tb.BVCmp("bvslt", ext, ip.tb.BVConst(1<<50, 64)))
			ip.lastNow = ext
		} else {
			ext = ip.tb.BVConst(uint64(ip.nowCount)*1000, 64)
		}
		return ip.timeNowValue(ext)
	}
	I["time.Sleep"] = func(ip *Interp, fn *ssa.Function, args []Value) Value {
		if ip.cfg.SleepEnv {
			// the sleeper wakes when the harness lets time pass (verifrt.WakeSleepers) or when nothing else can run
			g := ip.cur
			ip.schedPoint("time.Sleep")
			g.sleeping, g.sleepWake = true, false
			ip.block(func() bool { return g.sleepWake }, "time.Sleep")
			g.sleeping = false
			g.sleepWake = false
			ip.syncAcquire(ip.conc)
			return nil
		}
		ip.schedPoint("time.Sleep", fn)
		return nil
	}
	I["time.Since"] = func(ip *Interp, fn *ssa.Function, args []Value) Value {
		now := I["time.Now"](ip, fn, nil)
		sub := ip.prog.ImportedPackage("time").Type("Time")
		m := ip.prog.LookupMethod(sub.Type(), sub.Package().Pkg, "Sub")
		return ip.callFunction(m, []Value{now, args[0]}, nil)
	}
	envChan := func(ip *Interp) *ChanObj {
		ip.objID++
		tt := ip.prog.ImportedPackage("time").Type("Time").Type()
		return &ChanObj{id: ip.objID, env: true, elemT: tt}
	}
	I["time.After"] = func(ip *Interp, fn *ssa.Function, args []Value) Value { return envChan(ip) }
	I["time.Tick"] = I["time.After"]
	I["time.NewTicker"] = func(ip *Interp, fn *ssa.Function, args []Value) Value {
		tt := fn.Signature.Results().At(0).Type().(*types.Pointer).Elem()
		c := ip.newCell(tt)
		c.elems[0].v = envChan(ip)
		return Ptr{c}
	}
	I["time.NewTimer"] = I["time.NewTicker"]
	I["(*time.Ticker).Stop"] = stubZero
	I["(*time.Ticker).Reset"] = stubZero
	I["(*time.Timer).Stop"] = func(ip *Interp, fn *ssa.Function, args []Value) Value { return ip.tb.BoolConst(true) }
	I["(*time.Timer).Reset"] = I["(*time.Timer).Stop"]
	// ----- time.Time under the monotonic-clock abstraction (only when enabled) -----
	timeKind := func(ip *Interp, v Value) (string, *Term) {
		a, ok := v.(Agg)
		if !ok || len(a.elems) != 3 {
			return "", nil
		}
		wall, ok1 := a.elems[0].(*Term)
		ext, ok2 := a.elems[1].(*Term)
		if !ok1 || !ok2 || !wall.isConst {
			return "", nil
		}
		if wall.bv == 0 && ext.isConst && ext.bv == 0 {
			return "zero", ext
		}
		if wall.bv>>63 == 1 {
			return "mono", ext
		}
		return "", nil
	}
	cmpTime := func(op string) intrinsicFn {
		return func(ip *Interp, fn *ssa.Function, args []Value) Value {
			if !ip.cfg.AbstractTime {
				return fallThrough
			}
			ka, ea := timeKind(ip, args[0])
			kb, eb := timeKind(ip, args[1])
			if ka == "" || kb == "" {
				return fallThrough
			}
			tb := ip.tb
			switch {
			case ka == "mono" && kb == "mono":
				switch op {
				case "before":
					return tb.BVCmp("bvslt", ea, eb)
				case "after":
					return tb.BVCmp("bvsgt", ea, eb)
				default:
					return tb.Eq(ea, eb)
				}
			case ka == "zero" && kb == "zero":
				return tb.BoolConst(op == "equal")
			case ka == "zero": // the zero time is before every clock reading
				return tb.BoolConst(op == "before")
			default:
				return tb.BoolConst(op == "after")
			}
		}
	}
	I["(time.Time).Before"] = cmpTime("before")
	I["(time.Time).After"] = cmpTime("after")
	I["(time.Time).Equal"] = cmpTime("equal")
	I["(time.Time).IsZero"] = func(ip *Interp, fn *ssa.Function, args []Value) Value {
		if !ip.cfg.AbstractTime {
			return fallThrough
		}
		k, _ := timeKind(ip, args[0])
		if k == "" {
			return fallThrough
		}
		return ip.tb.BoolConst(k == "zero")
	}
	I["(time.Time).Sub"] = func(ip *Interp, fn *ssa.Function, args []Value) Value {
		if !ip.cfg.AbstractTime {
			return fallThrough
		}
		ka, ea := timeKind(ip, args[0])
		kb, eb := timeKind(ip, args[1])
		if ka == "" || kb == "" {
			return fallThrough
		}
		tb := ip.tb
		maxD := tb.BVConst(1<<63-1, 64)
		minD := tb.BVConst(1<<63, 64)
		switch {
		case ka == "mono" && kb == "mono":
			d := tb.BVBin("bvsub", ea, eb)
			zero := tb.BVConst(0, 64)
			// time.Time.Sub: saturate when the subtraction wrapped
			over := tb.And(tb.BVCmp("bvslt", d, zero), tb.BVCmp("bvsgt", ea, eb))
			under := tb.And(tb.BVCmp("bvsgt", d, zero), tb.BVCmp("bvslt", ea, eb))
			return tb.Ite(over, maxD, tb.Ite(under, minD, d))
		case ka == "zero" && kb == "zero":
			return tb.BVConst(0, 64)
		case ka == "zero":
			return minD
		default:
			return maxD
		}
	}
	I["(time.Time).Add"] = func(ip *Interp, fn *ssa.Function, args []Value) Value {
		if !ip.cfg.AbstractTime {
			return fallThrough
		}
		k, e := timeKind(ip, args[0])
		if k != "mono" {
			return fallThrough
		}
		tb := ip.tb
		d := termArg(args[1])
		te := tb.BVBin("bvadd", e, d)
		zero := tb.BVConst(0, 64)
		wrapped := tb.Or(tb.And(tb.BVCmp("bvslt", d, zero), tb.BVCmp("bvsgt", te, e)),
			tb.And(tb.BVCmp("bvsgt", d, zero), tb.BVCmp("bvslt", te, e)))
		ip.assumeStated(tb.Not(wrapped), "time.Time.Add: monotonic reading + duration does not overflow int64 nanoseconds")
		a := args[0].(Agg)
		return Agg{elems: []Value{a.elems[0], te, a.elems[2]}}
	}
	// ----- math -----
	I["math.Pow"] = func(ip *Interp, fn *ssa.Function, args []Value) Value {
		return ip.mathPow(termArg(args[0]), termArg(args[1]))
	}
	I["math.Float64frombits"] = func(ip *Interp, fn *ssa.Function, args []Value) Value {
		return ip.tb.FPFromBits(termArg(args[0]))
	}
	I["math.Float64bits"] = func(ip *Interp, fn *ssa.Function, args []Value) Value {
		t := termArg(args[0])
		if t.isConst {
			return ip.tb.BVConst(math.Float64bits(t.f), 64)
		}
		// introduce a fresh bv with to_fp(bv) == t (NaN payload unconstrained)
		v := ip.tb.Var(ip.uniqueName("f64bits"), BV(64))
		if ip.curModel != nil {
			e := &evaluator{m: ip.curModel, cache: map[int]mval{}, ok: true}
			ip.setModelValue(v.name, mval{bv: math.Float64bits(e.eval(t).f)})
		}
		ip.addPC(ip.tb.Or(ip.tb.And(ip.tb.FPIsNaN(t), ip.tb.FPIsNaN(ip.tb.FPFromBits(v))),
			ip.tb.mk("=", BoolSort, 0, 0, ip.tb.FPFromBits(v), t)))
		return v
	}
	I["math.Ceil"] = func(ip *Interp, fn *ssa.Function, args []Value) Value {
		return ip.tb.FPRound("RTP", termArg(args[0]))
	}
	I["math.Floor"] = func(ip *Interp, fn *ssa.Function, args []Value) Value {
		return ip.tb.FPRound("RTN", termArg(args[0]))
	}
	I["math.Trunc"] = func(ip *Interp, fn *ssa.Function, args []Value) Value {
		return ip.tb.FPRound("RTZ", termArg(args[0]))
	}
	I["math.Abs"] = func(ip *Interp, fn *ssa.Function, args []Value) Value {
		t := termArg(args[0])
		if t.isConst {
			return ip.tb.FPConst(math.Abs(t.f))
		}
		return ip.tb.mk("fp.abs", FPSort, 0, 0, t)
	}
	// math.Min/Max (assembly on amd64): documented special cases
	I["math.Min"] = func(ip *Interp, fn *ssa.Function, args []Value) Value {
		tb := ip.tb
		x, y := termArg(args[0]), termArg(args[1])
		if x.isConst && y.isConst {
			return tb.FPConst(math.Min(x.f, y.f))
		}
		ninf := tb.FPConst(math.Inf(-1))
		isNinf := tb.Or(tb.FPCmp("fp.eq", x, ninf), tb.FPCmp("fp.eq", y, ninf))
		return tb.Ite(isNinf, ninf, ip.fpMinMax(true, x, y))
	}
	I["math.Max"] = func(ip *Interp, fn *ssa.Function, args []Value) Value {
		tb := ip.tb
		x, y := termArg(args[0]), termArg(args[1])
		if x.isConst && y.isConst {
			return tb.FPConst(math.Max(x.f, y.f))
		}
		pinf := tb.FPConst(math.Inf(1))
		isPinf := tb.Or(tb.FPCmp("fp.eq", x, pinf), tb.FPCmp("fp.eq", y, pinf))
		return tb.Ite(isPinf, pinf, ip.fpMinMax(false, x, y))
	}
	I["math/bits.Mul64"] = func(ip *Interp, fn *ssa.Function, args []Value) Value {
		x, y := termArg(args[0]), termArg(args[1])
		if x.isConst && y.isConst {
			hi, lo := mul64(x.bv, y.bv)
			return Tuple{ip.tb.BVConst(hi, 64), ip.tb.BVConst(lo, 64)}
		}
		// 128-bit product through four 32x32 partial products
		ip.unsupported("symbolic bits.Mul64")
		return nil
	}
	// ----- errors / fmt / strconv -----
	I["fmt.Errorf"] = func(ip *Interp, fn *ssa.Function, args []Value) Value {
		f := args[0].(*Str)
		k := "fmt.Errorf"
		if !f.sym {
			k += ":" + f.s
		}
		return ip.opaqueErr(k)
	}
	I["fmt.Sprintf"] = func(ip *Interp, fn *ssa.Function, args []Value) Value {
		return ip.sprintf(args[0].(*Str), args[1].(Slice))
	}
	I["fmt.Sprint"] = func(ip *Interp, fn *ssa.Function, args []Value) Value {
		ip.note("fmt.Sprint result is a placeholder")
		return &Str{s: "<sprint>"}
	}
	for _, n := range []string{"fmt.Println", "fmt.Printf", "fmt.Print", "fmt.Fprintf", "fmt.Fprintln", "fmt.Fprint"} {
		I[n] = stubZero
	}
	I["os.Exit"] = func(ip *Interp, fn *ssa.Function, args []Value) Value {
		panic(&PathEnd{kind: "exit", msg: "os.Exit called"})
	}
	I["strconv.Itoa"] = func(ip *Interp, fn *ssa.Function, args []Value) Value {
		t := termArg(args[0])
		if t.isConst {
			return &Str{s: strconv.FormatInt(sext(t.bv, t.sort.W), 10)}
		}
		k := ip.concretize(t, -1, 20)
		return &Str{s: strconv.Itoa(k)}
	}
	I["errors.Is"] = func(ip *Interp, fn *ssa.Function, args []Value) Value {
		return ip.valuesEqual(args[0], args[1])
	}
	// ----- strings (term-building, exact for concrete lengths) -----
	I["strings.Contains"] = func(ip *Interp, fn *ssa.Function, args []Value) Value {
		return ip.strContains(args[0].(*Str), args[1].(*Str))
	}
	I["strings.HasPrefix"] = func(ip *Interp, fn *ssa.Function, args []Value) Value {
		s, p := args[0].(*Str), args[1].(*Str)
		if s.Len() < p.Len() {
			return ip.tb.BoolConst(false)
		}
		return ip.strEq(ip.substr(s, 0, p.Len()), p)
	}
	I["strings.HasSuffix"] = func(ip *Interp, fn *ssa.Function, args []Value) Value {
		s, p := args[0].(*Str), args[1].(*Str)
		if s.Len() < p.Len() {
			return ip.tb.BoolConst(false)
		}
		return ip.strEq(ip.substr(s, s.Len()-p.Len(), s.Len()), p)
	}
	I["strings.Index"] = func(ip *Interp, fn *ssa.Function, args []Value) Value {
		return ip.strIndex(args[0].(*Str), args[1].(*Str))
	}
	I["strings.IndexByte"] = func(ip *Interp, fn *ssa.Function, args []Value) Value {
		s := args[0].(*Str)
		return ip.strIndex(s, ip.mkStr([]*Term{termArg(args[1])}))
	}
	I["strings.ToLower"] = func(ip *Interp, fn *ssa.Function, args []Value) Value {
		return ip.strMapASCII(args[0].(*Str), true)
	}
	I["strings.ToUpper"] = func(ip *Interp, fn *ssa.Function, args []Value) Value {
		return ip.strMapASCII(args[0].(*Str), false)
	}
	I["strings.EqualFold"] = func(ip *Interp, fn *ssa.Function, args []Value) Value {
		return ip.strEq(ip.strMapASCII(args[0].(*Str), true), ip.strMapASCII(args[1].(*Str), true))
	}
	I["(*strings.Builder).WriteString"] = func(ip *Interp, fn *ssa.Function, args []Value) Value {
		c := recvCell(ip, args)
		cur, _ := ip.extra[c].(*Str)
		if cur == nil {
			cur = &Str{}
		}
		ip.extra[c] = ip.binop(tokenADD, cur, args[1], nil, nil)
		return Tuple{ip.intConst(args[1].(*Str).Len(), 64), Iface{}}
	}
	I["(*strings.Builder).WriteByte"] = func(ip *Interp, fn *ssa.Function, args []Value) Value {
		c := recvCell(ip, args)
		cur, _ := ip.extra[c].(*Str)
		if cur == nil {
			cur = &Str{}
		}
		ip.extra[c] = ip.binop(tokenADD, cur, ip.mkStr([]*Term{termArg(args[1])}), nil, nil)
		return Iface{}
	}
	I["(*strings.Builder).WriteRune"] = func(ip *Interp, fn *ssa.Function, args []Value) Value {
		c := recvCell(ip, args)
		cur, _ := ip.extra[c].(*Str)
		if cur == nil {
			cur = &Str{}
		}
		r := termArg(args[1])
		var add *Str
		if r.isConst {
			add = &Str{s: string(rune(sext(r.bv, 32)))}
		} else {
			ip.assumeStated(ip.tb.BVCmp("bvult", r, ip.tb.BVConst(0x80, 32)), "WriteRune: symbolic runes are ASCII")
			add = ip.mkStr([]*Term{ip.tb.Extract(7, 0, r)})
		}
		ip.extra[c] = ip.binop(tokenADD, cur, add, nil, nil)
		return Tuple{ip.intConst(add.Len(), 64), Iface{}}
	}
	I["(*strings.Builder).String"] = func(ip *Interp, fn *ssa.Function, args []Value) Value {
		c := recvCell(ip, args)
		cur, _ := ip.extra[c].(*Str)
		if cur == nil {
			return &Str{}
		}
		return cur
	}
	I["(*strings.Builder).Len"] = func(ip *Interp, fn *ssa.Function, args []Value) Value {
		c := recvCell(ip, args)
		cur, _ := ip.extra[c].(*Str)
		if cur == nil {
			return ip.intConst(0, 64)
		}
		return ip.intConst(cur.Len(), 64)
	}
	I["(*strings.Builder).Grow"] = stubZero
	I["(*strings.Builder).Reset"] = func(ip *Interp, fn *ssa.Function, args []Value) Value {
		delete(ip.extra, recvCell(ip, args))
		return nil
	}
	// uuid
	I["github.com/google/uuid.NewString"] = func(ip *Interp, fn *ssa.Function, args []Value) Value {
		ip.uuidN++
		return &Str{s: fmt.Sprintf("00000000-0000-4000-8000-%012d", ip.uuidN)}
	}
	I["github.com/google/uuid.New"] = func(ip *Interp, fn *ssa.Function, args []Value) Value {
		ip.uuidN++
		a := Agg{elems: make([]Value, 16)}
		for i := range a.elems {
			a.elems[i] = ip.tb.BVConst(0, 8)
		}
		a.elems[14] = ip.tb.BVConst(uint64(ip.uuidN>>8), 8)
		a.elems[15] = ip.tb.BVConst(uint64(ip.uuidN), 8)
		return a
	}
	I["(github.com/google/uuid.UUID).String"] = func(ip *Interp, fn *ssa.Function, args []Value) Value {
		a := args[0].(Agg)
		n := int(a.elems[14].(*Term).bv)<<8 | int(a.elems[15].(*Term).bv)
		return &Str{s: fmt.Sprintf("00000000-0000-4000-8000-%012d", n)}
	}
	I[zenoPath+"/internal/pkg/log/dumper.PanicWithDump"] = func(ip *Interp, fn *ssa.Function, args []Value) Value {
		msg := "PanicWithDump"
		if st, ok := args[0].(*Str); ok && !st.sym {
			msg = st.s
		}
		ip.goPanic("dumper.PanicWithDump: " + msg)
		return nil
	}
	I["runtime.Gosched"] = func(ip *Interp, fn *ssa.Function, args []Value) Value {
		ip.schedPoint("Gosched") // depends on everything: used by models to mark I/O, where any interleaving is possible
		return nil
	}
	I["runtime.NumGoroutine"] = func(ip *Interp, fn *ssa.Function, args []Value) Value {
		n := 0
		for _, g := range ip.gs {
			if !g.done {
				n++
			}
		}
		return ip.intConst(n, 64)
	}
}

func mul64(x, y uint64) (hi, lo uint64) {
	const mask32 = 1<<32 - 1
	x0, x1 := x&mask32, x>>32
	y0, y1 := y&mask32, y>>32
	w0 := x0 * y0
	t := x1*y0 + w0>>32
	w1, w2 := t&mask32, t>>32
	w1 += x0 * y1
	hi = x1*y1 + w2 + w1>>32
	lo = x * y
	return
}

func (ip *Interp) note(s string) {
	for _, n := range ip.res.Notes {
		if n == s {
			return
		}
	}
	ip.res.Notes = append(ip.res.Notes, s)
}

func (ip *Interp) substr(s *Str, lo, hi int) *Str {
	if s.sym {
		return ip.mkStr(s.b[lo:hi])
	}
	return &Str{s: s.s[lo:hi]}
}

func (ip *Interp) strContains(s, sub *Str) *Term {
	tb := ip.tb
	if !s.sym && !sub.sym {
		return tb.BoolConst(strings.Contains(s.s, sub.s))
	}
	n, m := s.Len(), sub.Len()
	if m > n {
		return tb.BoolConst(false)
	}
	r := tb.BoolConst(false)
	for i := 0; i+m <= n; i++ {
		r = tb.Or(r, ip.strEq(ip.substr(s, i, i+m), sub))
	}
	return r
}

func (ip *Interp) strIndex(s, sub *Str) *Term {
	tb := ip.tb
	if !s.sym && !sub.sym {
		return ip.intConst(strings.Index(s.s, sub.s), 64)
	}
	n, m := s.Len(), sub.Len()
	r := ip.intConst(-1, 64)
	for i := n - m; i >= 0; i-- {
		r = tb.Ite(ip.strEq(ip.substr(s, i, i+m), sub), ip.intConst(i, 64), r)
	}
	return r
}

func (ip *Interp) strMapASCII(s *Str, lower bool) *Str {
	tb := ip.tb
	if !s.sym {
		if lower {
			return &Str{s: strings.ToLower(s.s)}
		}
		return &Str{s: strings.ToUpper(s.s)}
	}
	bs := make([]*Term, len(s.b))
	for i, b := range s.b {
		ip.assumeStated(tb.BVCmp("bvult", b, tb.BVConst(0x80, 8)), "ToLower/ToUpper: symbolic bytes are ASCII")
		if lower {
			isU := tb.And(tb.BVCmp("bvuge", b, tb.BVConst('A', 8)), tb.BVCmp("bvule", b, tb.BVConst('Z', 8)))
			bs[i] = tb.Ite(isU, tb.BVBin("bvadd", b, tb.BVConst(32, 8)), b)
		} else {
			isL := tb.And(tb.BVCmp("bvuge", b, tb.BVConst('a', 8)), tb.BVCmp("bvule", b, tb.BVConst('z', 8)))
			bs[i] = tb.Ite(isL, tb.BVBin("bvsub", b, tb.BVConst(32, 8)), b)
		}
	}
	return ip.mkStr(bs)
}

// sprintf supports %s %d %v %q-less formats over concrete-length operands; anything else is a placeholder.
func (ip *Interp) sprintf(f *Str, va Slice) Value {
	if f.sym {
		ip.unsupported("symbolic format string")
	}
	var out Value = &Str{}
	add := func(s *Str) { out = ip.binop(tokenADD, out, s, nil, nil) }
	argi := 0
	fs := f.s
	for i := 0; i < len(fs); i++ {
		if fs[i] != '%' {
			add(&Str{s: string(fs[i])})
			continue
		}
		i++
		if i >= len(fs) {
			break
		}
		if fs[i] == '%' {
			add(&Str{s: "%"})
			continue
		}
		verb := fs[i]
		if argi >= va.len {
			add(&Str{s: "%!" + string(verb) + "(MISSING)"})
			continue
		}
		a := ip.load(va.arr.elems[va.off+argi]).(Iface)
		argi++
		switch v := a.v.(type) {
		case *Str:
			if verb == 's' || verb == 'v' {
				add(v)
				continue
			}
		case *Term:
			if v.isConst && v.sort.K == KBV && (verb == 'd' || verb == 'v') {
				_, signed, _ := intWidth(a.t)
				if signed {
					add(&Str{s: strconv.FormatInt(sext(v.bv, v.sort.W), 10)})
				} else {
					add(&Str{s: strconv.FormatUint(v.bv, 10)})
				}
				continue
			}
		}
		ip.note("fmt.Sprintf: operand rendered as placeholder")
		add(&Str{s: "<fmt>"})
	}
	return out
}

// mathPow models math.Pow exactly for base 2 or 0.5 with an exponent that is an
// integer converted to float64 (the only uses in scope); anything else is unsupported.
func (ip *Interp) mathPow(x, y *Term) Value {
	tb := ip.tb
	if x.isConst && y.isConst {
		return tb.FPConst(math.Pow(x.f, y.f))
	}
	if !x.isConst || (x.f != 2 && x.f != 0.5) {
		ip.unsupported("math.Pow with base other than 2 or 0.5")
	}
	if y.op != "to_fp_signed" || y.args[0].sort.W != 64 {
		ip.unsupported("math.Pow with non-integer exponent term")
	}
	n := y.args[0] // int64
	// for |n| >= 2^53 the float64(n) is still an even integer with the same sign and |.|>1100, so the clamped result is identical
	if x.f == 0.5 {
		// 0.5^n = 2^(-n); -MinInt64 overflows, clamp first
		n = tb.Ite(tb.BVCmp("bvslt", n, tb.BVConst(uint64(0xFFFFFFFFFFFFF000), 64)), tb.BVConst(4096, 64), tb.BVNeg(n))
	}
	c := func(v int64) *Term { return tb.BVConst(uint64(v), 64) }
	// normal: -1022 <= n <= 1023 : bits = (n+1023)<<52
	normal := tb.FPFromBits(tb.BVBin("bvshl", tb.BVBin("bvadd", n, c(1023)), c(52)))
	// subnormal: -1074 <= n <= -1023 : bits = 1 << (n+1074)
	sub := tb.FPFromBits(tb.BVBin("bvshl", c(1), tb.BVBin("bvadd", n, c(1074))))
	r := tb.Ite(tb.BVCmp("bvsgt", n, c(1023)), tb.FPConst(math.Inf(1)),
		tb.Ite(tb.BVCmp("bvsge", n, c(-1022)), normal,
			tb.Ite(tb.BVCmp("bvsge", n, c(-1074)), sub, tb.FPConst(0))))
	return r
}
