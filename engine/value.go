package main

import (
	"fmt"
	"go/types"
	"strings"

	"golang.org/x/tools/go/ssa"
)

// Value is one of:
//
//	*Term (bool, integer, float scalars)   *Str   Ptr   Agg   Slice   *MapObj
//	Iface   *Closure   *ChanObj   Tuple   *Opaque
type Value interface{}

type Str struct {
	s   string  // concrete content (when b == nil)
	b   []*Term // symbolic bytes (BV8 each), concrete length
	sym bool
}

func (s *Str) Len() int {
	if s.sym {
		return len(s.b)
	}
	return len(s.s)
}

type Cell struct {
	v     Value
	elems []*Cell
	typ   types.Type
	id    int
	rm    *raceMeta
}

type Ptr struct{ c *Cell }

type Agg struct{ elems []Value }

type Slice struct {
	arr           *Cell // array cell; nil for nil slice
	off, len, cap int
}

type mapEntry struct {
	k Value
	v Value
}

type MapObj struct {
	entries []*mapEntry
	keyT    types.Type
	valT    types.Type
	id      int
	rm      *raceMeta
}

type Iface struct {
	t types.Type // dynamic type; nil for nil interface
	v Value
}

type Closure struct {
	fn  *ssa.Function
	env []Value
	// native, when non-nil, is an engine-implemented function value
	native func(ip *Interp, args []Value) Value
	name   string
}

type Tuple []Value

// Opaque is an uninterpreted object returned by a stub (e.g. a formatted error).
type Opaque struct {
	kind string
	id   int
	data interface{}
}

type ChanObj struct {
	id     int
	cap    int
	buf    []Value
	closed bool
	elemT  types.Type
	sendq2 []*chanReg
	recvq2 []*chanReg
	env    bool // environment channel (ticker/time.After): fires while the tick budget lasts
	envEp  int  // per-channel budget granted by EnvTicksEach: the grant it belongs to ...
	envOwn int  // ... and what is left of it
}

func under(t types.Type) types.Type { return t.Underlying() }

func intWidth(t types.Type) (w int, signed bool, ok bool) {
	b, isB := under(t).(*types.Basic)
	if !isB {
		return 0, false, false
	}
	switch b.Kind() {
	case types.Int8:
		return 8, true, true
	case types.Int16:
		return 16, true, true
	case types.Int32:
		return 32, true, true
	case types.Int64, types.Int, types.UntypedInt, types.UntypedRune:
		return 64, true, true
	case types.Uint8:
		return 8, false, true
	case types.Uint16:
		return 16, false, true
	case types.Uint32:
		return 32, false, true
	case types.Uint64, types.Uint, types.Uintptr:
		return 64, false, true
	}
	return 0, false, false
}

func isFloat(t types.Type) bool {
	b, ok := under(t).(*types.Basic)
	return ok && (b.Kind() == types.Float64 || b.Kind() == types.Float32 || b.Kind() == types.UntypedFloat)
}

func isFloat32(t types.Type) bool {
	b, ok := under(t).(*types.Basic)
	return ok && b.Kind() == types.Float32
}

func isString(t types.Type) bool {
	b, ok := under(t).(*types.Basic)
	return ok && (b.Kind() == types.String || b.Kind() == types.UntypedString)
}

func isBool(t types.Type) bool {
	b, ok := under(t).(*types.Basic)
	return ok && (b.Kind() == types.Bool || b.Kind() == types.UntypedBool)
}

func (ip *Interp) newCell(t types.Type) *Cell {
	ip.cellID++
	c := &Cell{typ: t, id: ip.cellID}
	switch u := under(t).(type) {
	case *types.Struct:
		c.elems = make([]*Cell, u.NumFields())
		for i := range c.elems {
			c.elems[i] = ip.newCell(u.Field(i).Type())
		}
	case *types.Array:
		n := int(u.Len())
		c.elems = make([]*Cell, n)
		for i := range c.elems {
			c.elems[i] = ip.newCell(u.Elem())
		}
	default:
		c.v = ip.zero(t)
	}
	return c
}

// newArrayCell makes an array cell of n elements of type elem without a types.Array.
func (ip *Interp) newArrayCell(elem types.Type, n int) *Cell {
	ip.cellID++
	c := &Cell{typ: types.NewArray(elem, int64(n)), id: ip.cellID}
	c.elems = make([]*Cell, n)
	for i := range c.elems {
		c.elems[i] = ip.newCell(elem)
	}
	return c
}

func (ip *Interp) zero(t types.Type) Value {
	switch u := under(t).(type) {
	case *types.Basic:
		if w, _, ok := intWidth(u); ok {
			return ip.tb.BVConst(0, w)
		}
		switch {
		case isBool(u):
			return ip.tb.BoolConst(false)
		case isFloat(u):
			return ip.tb.FPConst(0)
		case isString(u):
			return &Str{}
		case u.Kind() == types.UnsafePointer:
			return Ptr{}
		case u.Kind() == types.UntypedNil, u.Kind() == types.Invalid:
			return nil
		}
	case *types.Pointer:
		return Ptr{}
	case *types.Slice:
		return Slice{}
	case *types.Map:
		return (*MapObj)(nil)
	case *types.Chan:
		return (*ChanObj)(nil)
	case *types.Interface:
		return Iface{}
	case *types.Signature:
		return (*Closure)(nil)
	case *types.Struct:
		a := Agg{elems: make([]Value, u.NumFields())}
		for i := range a.elems {
			a.elems[i] = ip.zero(u.Field(i).Type())
		}
		return a
	case *types.Array:
		a := Agg{elems: make([]Value, int(u.Len()))}
		for i := range a.elems {
			a.elems[i] = ip.zero(u.Elem())
		}
		return a
	case *types.Tuple:
		tp := make(Tuple, u.Len())
		for i := range tp {
			tp[i] = ip.zero(u.At(i).Type())
		}
		return tp
	case *types.TypeParam:
		ip.unsupported("zero value of type parameter " + t.String())
	}
	ip.unsupported("zero value of " + t.String())
	return nil
}

func (ip *Interp) load(c *Cell) Value {
	if c == nil {
		ip.goPanic("nil pointer dereference")
	}
	if c.elems != nil {
		a := Agg{elems: make([]Value, len(c.elems))}
		for i, e := range c.elems {
			a.elems[i] = ip.load(e)
		}
		return a
	}
	return c.v
}

func (ip *Interp) store(c *Cell, v Value) {
	if c == nil {
		ip.goPanic("nil pointer dereference")
	}
	if c.elems != nil {
		a, ok := v.(Agg)
		if !ok {
			ip.unsupported(fmt.Sprintf("store of non-aggregate %T into aggregate cell %v", v, c.typ))
		}
		if len(a.elems) != len(c.elems) {
			ip.unsupported("aggregate size mismatch in store")
		}
		for i, e := range c.elems {
			ip.store(e, a.elems[i])
		}
		return
	}
	c.v = v
}

func (ip *Interp) strConst(s string) *Str { return &Str{s: s} }

// strBytes returns the bytes of a string as terms.
func (ip *Interp) strBytes(s *Str) []*Term {
	if s.sym {
		return s.b
	}
	r := make([]*Term, len(s.s))
	for i := 0; i < len(s.s); i++ {
		r[i] = ip.tb.BVConst(uint64(s.s[i]), 8)
	}
	return r
}

// mkStr builds a string from byte terms, concretising when all bytes are constant.
func (ip *Interp) mkStr(bs []*Term) *Str {
	all := true
	for _, b := range bs {
		if !b.isConst {
			all = false
			break
		}
	}
	if all {
		var sb strings.Builder
		for _, b := range bs {
			sb.WriteByte(byte(b.bv))
		}
		return &Str{s: sb.String()}
	}
	return &Str{b: bs, sym: true}
}

func (ip *Interp) strEq(a, b *Str) *Term {
	if a.Len() != b.Len() {
		return ip.tb.BoolConst(false)
	}
	if !a.sym && !b.sym {
		return ip.tb.BoolConst(a.s == b.s)
	}
	ab, bb := ip.strBytes(a), ip.strBytes(b)
	r := ip.tb.BoolConst(true)
	for i := range ab {
		r = ip.tb.And(r, ip.tb.Eq(ab[i], bb[i]))
	}
	return r
}

// strLess builds the lexicographic a<b term.
func (ip *Interp) strLess(a, b *Str) *Term {
	if !a.sym && !b.sym {
		return ip.tb.BoolConst(a.s < b.s)
	}
	ab, bb := ip.strBytes(a), ip.strBytes(b)
	n := len(ab)
	if len(bb) < n {
		n = len(bb)
	}
	// tail: all common bytes equal -> shorter is less
	r := ip.tb.BoolConst(len(ab) < len(bb))
	for i := n - 1; i >= 0; i-- {
		lt := ip.tb.BVCmp("bvult", ab[i], bb[i])
		eq := ip.tb.Eq(ab[i], bb[i])
		r = ip.tb.Or(lt, ip.tb.And(eq, r))
	}
	return r
}

func (ip *Interp) describe(v Value) string {
	switch x := v.(type) {
	case *Term:
		if x.isConst {
			switch x.sort.K {
			case KBool:
				return fmt.Sprint(x.Bool())
			case KBV:
				return fmt.Sprint(x.bv)
			case KFP:
				return fmt.Sprint(x.f)
			}
		}
		return "<sym>"
	case *Str:
		if x.sym {
			return fmt.Sprintf("<symstr len=%d>", len(x.b))
		}
		return fmt.Sprintf("%q", x.s)
	case Iface:
		if x.t == nil {
			return "nil"
		}
		return fmt.Sprintf("%s(%s)", x.t, ip.describe(x.v))
	case Ptr:
		if x.c == nil {
			return "nil"
		}
		return fmt.Sprintf("&cell%d", x.c.id)
	case *Opaque:
		return "<" + x.kind + ">"
	}
	return fmt.Sprintf("%T", v)
}
