package main

// SMT back ends driven over stdin/stdout (SMT-LIB2). Every query is sent as one
// fresh problem ((reset) + declarations + assertions + check-sat): z3's
// tactic-based solvers, which are only used without push/pop, are an order of
// magnitude faster on the FP/BV problems produced here. With more than one back
// end configured the query is raced; the first definite answer (sat/unsat) wins
// and the loser is killed and restarted lazily.

import (
	"bufio"
	"fmt"
	"io"
	"os"
	"os/exec"
	"strings"
	"sync"
	"time"
)

const endMarker = "<<VERIF-END>>"

type backend struct {
	bin   string
	args  []string
	cmd   *exec.Cmd
	in    io.WriteCloser
	out   *bufio.Reader
	cvc5  bool
	alive bool
	mu    sync.Mutex
}

func newBackend(bin string, timeoutMs int) *backend {
	b := &backend{bin: bin}
	if strings.Contains(bin, "cvc5") {
		b.cvc5 = true
		b.args = []string{"--incremental", "--lang=smt2", "--produce-models", fmt.Sprintf("--tlimit-per=%d", timeoutMs)}
	} else {
		b.args = []string{"-in", "-smt2"}
	}
	return b
}

func (b *backend) start() error {
	b.mu.Lock()
	defer b.mu.Unlock()
	cmd := exec.Command(b.bin, b.args...)
	in, err := cmd.StdinPipe()
	if err != nil {
		return err
	}
	out, err := cmd.StdoutPipe()
	if err != nil {
		return err
	}
	cmd.Stderr = cmd.Stdout
	if err := cmd.Start(); err != nil {
		return err
	}
	b.cmd = cmd
	b.in = in
	b.out = bufio.NewReaderSize(out, 1<<16)
	b.alive = true
	return nil
}

func (b *backend) kill() {
	b.mu.Lock()
	defer b.mu.Unlock()
	if b.cmd != nil {
		b.alive = false
		b.in.Close()
		b.cmd.Process.Kill()
		b.cmd.Wait()
		b.cmd = nil
	}
}

// roundTrip sends text and returns the lines printed before the end marker.
func (b *backend) roundTrip(str string) ([]string, error) {
	if !b.alive {
		if err := b.start(); err != nil {
			return nil, err
		}
	}
	b.mu.Lock()
	in, out := b.in, b.out
	b.mu.Unlock()
	if _, err := io.WriteString(in, str+"(echo \""+endMarker+"\")\n"); err != nil {
		return nil, err
	}
	var lines []string
	for {
		line, err := out.ReadString('\n')
		if err != nil {
			return lines, fmt.Errorf("solver %s died: %v (%s)", b.bin, err, strings.Join(lines, " | "))
		}
		line = strings.TrimRight(line, "\r\n")
		if strings.Contains(line, endMarker) {
			break
		}
		if line != "" {
			lines = append(lines, line)
		}
	}
	return lines, nil
}

type Solver struct {
	backends []*backend
	defined  map[int]int
	timeout  int // ms per check
	seed     int
	cur      strings.Builder
	winner   *backend
	// statistics
	Queries int
	Sat     int
	Unsat   int
	Unknown int
	Time    time.Duration
	Errors  []string
	Wins    map[string]int
	log     io.Writer
	SlowDir string
	slowN   int
}

func NewSolver(bins string, timeoutMs int, seed int) (*Solver, error) {
	s := &Solver{timeout: timeoutMs, seed: seed, Wins: map[string]int{}}
	for _, bin := range strings.Split(bins, ",") {
		bin = strings.TrimSpace(bin)
		if bin == "" {
			continue
		}
		s.backends = append(s.backends, newBackend(bin, timeoutMs))
	}
	if len(s.backends) == 0 {
		return nil, fmt.Errorf("no solver configured")
	}
	s.Reset()
	return s, nil
}

func (s *Solver) Close() {
	for _, b := range s.backends {
		b.kill()
	}
}

func (s *Solver) Reset() {
	s.cur.Reset()
	s.defined = map[int]int{}
}

func (s *Solver) prelude(b *backend, timeout int) string {
	if b.cvc5 {
		return "(reset)\n(set-logic ALL)\n"
	}
	return fmt.Sprintf("(reset)\n(set-option :timeout %d)\n(set-option :random-seed %d)\n", timeout, s.seed)
}

// Load starts a fresh problem with the given assertions.
func (s *Solver) Load(asserts []*Term) {
	s.Reset()
	has := func(id int) bool { _, ok := s.defined[id]; return ok }
	set := func(id int) { s.defined[id] = 0 }
	for _, t := range asserts {
		t.Emit(has, set, &s.cur)
		s.cur.WriteString("(assert " + t.ref() + ")\n")
	}
}

func (s *Solver) IsDefined(t *Term) bool { _, ok := s.defined[t.id]; return ok }

type raceResult struct {
	b        *backend
	res      string
	err      error
	errLines []string
}

func parseCheck(lines []string) (string, []string) {
	res := "unknown"
	var errs []string
	for _, l := range lines {
		l = strings.TrimSpace(l)
		if l == "sat" || l == "unsat" || l == "unknown" {
			res = l
		}
		if strings.Contains(l, "(error") {
			errs = append(errs, l)
		}
	}
	if len(errs) > 0 {
		res = "unknown"
	}
	return res, errs
}

// Check returns "sat", "unsat" or "unknown" (any error line makes a back end's answer unknown).
func (s *Solver) Check() string {
	start := time.Now()
	script := s.cur.String()
	if s.log != nil {
		io.WriteString(s.log, script+"(check-sat)\n")
	}
	res := "unknown"
	s.winner = nil
	var allErrs []string
	backends := s.backends
	if len(s.backends) > 1 {
		// stage 1: the primary back end alone with a short budget (most queries are trivial)
		b := s.backends[0]
		lines, err := b.roundTrip(s.prelude(b, 1500) + script + "(check-sat)\n")
		if err != nil {
			b.kill()
			allErrs = append(allErrs, err.Error())
		} else {
			r, errs := parseCheck(lines)
			allErrs = append(allErrs, errs...)
			if r == "sat" || r == "unsat" {
				res = r
				s.winner = b
				s.Wins[b.bin]++
				backends = nil
			}
		}
	}
	if len(backends) > 0 {
		ch := make(chan raceResult, len(backends))
		for _, b := range backends {
			go func(b *backend) {
				lines, err := b.roundTrip(s.prelude(b, s.timeout) + script + "(check-sat)\n")
				r, errs := parseCheck(lines)
				ch <- raceResult{b: b, res: r, err: err, errLines: errs}
			}(b)
		}
		pending := len(backends)
		for pending > 0 {
			rr := <-ch
			pending--
			if rr.err != nil {
				rr.b.kill()
				allErrs = append(allErrs, rr.err.Error())
				continue
			}
			allErrs = append(allErrs, rr.errLines...)
			if rr.res == "sat" || rr.res == "unsat" {
				res = rr.res
				s.winner = rr.b
				s.Wins[rr.b.bin]++
				break
			}
		}
		if pending > 0 {
			// kill the losers and wait for their reader goroutines so the back ends can be restarted safely
			for _, b := range backends {
				if b != s.winner {
					b.kill()
				}
			}
			for i := 0; i < pending; i++ {
				<-ch
			}
		}
	}
	if res == "unknown" {
		for _, e := range allErrs {
			if len(s.Errors) < 20 {
				s.Errors = append(s.Errors, e)
			}
		}
	}
	el := time.Since(start)
	s.Time += el
	s.Queries++
	if s.SlowDir != "" && el > 5*time.Second {
		s.slowN++
		os.WriteFile(fmt.Sprintf("%s/slow-%d-%p-%d-%.0fs-%s.smt2", s.SlowDir, os.Getpid(), s, s.slowN, el.Seconds(), res), []byte(script+"(check-sat)\n"), 0o644)
	}
	switch res {
	case "sat":
		s.Sat++
	case "unsat":
		s.Unsat++
	default:
		s.Unknown++
	}
	return res
}

// GetValues returns the model values (raw SMT-LIB text) from the back end that answered sat.
func (s *Solver) GetValues(vars []*Term) (map[string]string, error) {
	res := map[string]string{}
	if s.winner == nil {
		return nil, fmt.Errorf("no model available")
	}
	for i := 0; i < len(vars); i += 50 {
		j := i + 50
		if j > len(vars) {
			j = len(vars)
		}
		var sb strings.Builder
		sb.WriteString("(get-value (")
		for _, v := range vars[i:j] {
			sb.WriteString(v.ref())
			sb.WriteByte(' ')
		}
		sb.WriteString("))\n")
		lines, err := s.winner.roundTrip(sb.String())
		if err != nil {
			return nil, err
		}
		txt := strings.Join(lines, " ")
		sx, err := parseSexp(txt)
		if err != nil {
			return nil, fmt.Errorf("get-value parse: %v: %s", err, txt)
		}
		for _, pair := range sx.list {
			if len(pair.list) != 2 {
				continue
			}
			name := strings.Trim(pair.list[0].String(), "|")
			res[name] = pair.list[1].String()
		}
	}
	return res, nil
}

// ---------- tiny s-expression parser ----------

type sexp struct {
	atom string
	list []*sexp
	isL  bool
}

func (s *sexp) String() string {
	if !s.isL {
		return s.atom
	}
	parts := make([]string, len(s.list))
	for i, c := range s.list {
		parts[i] = c.String()
	}
	return "(" + strings.Join(parts, " ") + ")"
}

func parseSexp(txt string) (*sexp, error) {
	pos := 0
	var parse func() (*sexp, error)
	skip := func() {
		for pos < len(txt) && (txt[pos] == ' ' || txt[pos] == '\n' || txt[pos] == '\t') {
			pos++
		}
	}
	parse = func() (*sexp, error) {
		skip()
		if pos >= len(txt) {
			return nil, fmt.Errorf("eof")
		}
		if txt[pos] == '(' {
			pos++
			n := &sexp{isL: true}
			for {
				skip()
				if pos >= len(txt) {
					return nil, fmt.Errorf("unterminated list")
				}
				if txt[pos] == ')' {
					pos++
					return n, nil
				}
				c, err := parse()
				if err != nil {
					return nil, err
				}
				n.list = append(n.list, c)
			}
		}
		start := pos
		if txt[pos] == '|' {
			pos++
			for pos < len(txt) && txt[pos] != '|' {
				pos++
			}
			pos++
			return &sexp{atom: txt[start:pos]}, nil
		}
		for pos < len(txt) && txt[pos] != ' ' && txt[pos] != '(' && txt[pos] != ')' && txt[pos] != '\n' {
			pos++
		}
		return &sexp{atom: txt[start:pos]}, nil
	}
	return parse()
}
