package main

// A long-lived SMT solver process driven over stdin/stdout (SMT-LIB2).

import (
	"bufio"
	"fmt"
	"io"
	"os"
	"os/exec"
	"strings"
	"time"
)

type Solver struct {
	bin     string
	args    []string
	cmd     *exec.Cmd
	in      io.WriteCloser
	out     *bufio.Reader
	defined map[int]int // term id -> scope level at which it was defined
	level   int
	timeout int // ms per check
	// statistics
	Queries  int
	Sat      int
	Unsat    int
	Unknown  int
	Time     time.Duration
	Errors   []string
	log      io.Writer
	isCVC5   bool
	seed     int
	cur      strings.Builder
	SlowDir  string
	slowN    int
}

const endMarker = "<<VERIF-END>>"

func NewSolver(bin string, timeoutMs int, seed int) (*Solver, error) {
	s := &Solver{bin: bin, timeout: timeoutMs, seed: seed}
	if strings.Contains(bin, "cvc5") {
		s.isCVC5 = true
		s.args = []string{"--incremental", "--lang=smt2", "--produce-models", fmt.Sprintf("--tlimit-per=%d", timeoutMs)}
	} else {
		s.args = []string{"-in", "-smt2"}
	}
	if err := s.start(); err != nil {
		return nil, err
	}
	return s, nil
}

func (s *Solver) start() error {
	s.cmd = exec.Command(s.bin, s.args...)
	in, err := s.cmd.StdinPipe()
	if err != nil {
		return err
	}
	out, err := s.cmd.StdoutPipe()
	if err != nil {
		return err
	}
	s.cmd.Stderr = s.cmd.Stdout
	if err := s.cmd.Start(); err != nil {
		return err
	}
	s.in = in
	s.out = bufio.NewReaderSize(out, 1<<16)
	s.Reset()
	return nil
}

func (s *Solver) Close() {
	if s.cmd != nil {
		s.in.Close()
		s.cmd.Process.Kill()
		s.cmd.Wait()
		s.cmd = nil
	}
}

func (s *Solver) send(str string) {
	s.cur.WriteString(str)
	if s.log != nil {
		io.WriteString(s.log, str)
	}
	io.WriteString(s.in, str)
}

// roundTrip sends the text followed by an echo marker and returns the lines printed before it.
func (s *Solver) roundTrip(str string) ([]string, error) {
	s.send(str)
	s.send("(echo \"" + endMarker + "\")\n")
	var lines []string
	for {
		line, err := s.out.ReadString('\n')
		if err != nil {
			return lines, fmt.Errorf("solver died: %v (%s)", err, strings.Join(lines, " | "))
		}
		line = strings.TrimRight(line, "\r\n")
		if strings.Contains(line, endMarker) {
			break
		}
		if line != "" {
			lines = append(lines, line)
		}
	}
	for _, l := range lines {
		if strings.Contains(l, "(error") {
			s.Errors = append(s.Errors, l)
		}
	}
	return lines, nil
}

func (s *Solver) Reset() {
	s.cur.Reset()
	s.defined = map[int]int{}
	s.level = 0
	var sb strings.Builder
	if s.isCVC5 {
		sb.WriteString("(reset)\n(set-logic ALL)\n")
	} else {
		sb.WriteString("(reset)\n")
		fmt.Fprintf(&sb, "(set-option :timeout %d)\n", s.timeout)
		fmt.Fprintf(&sb, "(set-option :random-seed %d)\n", s.seed)
	}
	s.send(sb.String())
}

// Load starts a fresh (non-incremental) problem with the given assertions.
// z3's tactic-based solvers are only used without push/pop and are an order of
// magnitude faster on the FP/BV queries produced here, so every query is sent whole.
func (s *Solver) Load(asserts []*Term) {
	s.Reset()
	var sb strings.Builder
	has := func(id int) bool { _, ok := s.defined[id]; return ok }
	set := func(id int) { s.defined[id] = 0 }
	for _, t := range asserts {
		t.Emit(has, set, &sb)
		sb.WriteString("(assert " + t.ref() + ")\n")
	}
	s.send(sb.String())
}

func (s *Solver) IsDefined(t *Term) bool { _, ok := s.defined[t.id]; return ok }

// Check returns "sat", "unsat" or "unknown" (any error line makes it unknown).
func (s *Solver) Check() string {
	start := time.Now()
	nerr := len(s.Errors)
	lines, err := s.roundTrip("(check-sat)\n")
	el := time.Since(start)
	s.Time += el
	s.Queries++
	if s.SlowDir != "" && el > 5*time.Second {
		s.slowN++
		os.WriteFile(fmt.Sprintf("%s/slow-%d-%d-%.0fs.smt2", s.SlowDir, os.Getpid(), s.slowN*1000+s.cmd.Process.Pid%1000, el.Seconds()), []byte(s.cur.String()), 0o644)
	}
	res := "unknown"
	if err == nil && len(s.Errors) == nerr {
		for _, l := range lines {
			l = strings.TrimSpace(l)
			if l == "sat" || l == "unsat" || l == "unknown" {
				res = l
			}
		}
	}
	if err != nil {
		s.Errors = append(s.Errors, err.Error())
		// restart the solver so later queries still work
		s.Close()
		s.start()
	}
	switch res {
	case "sat":
		s.Sat++
	case "unsat":
		s.Unsat++
	default:
		s.Unknown++
	}
	return res
}

// GetValues returns the model values of the given variables as raw SMT-LIB text.
func (s *Solver) GetValues(vars []*Term) (map[string]string, error) {
	res := map[string]string{}
	for i := 0; i < len(vars); i += 50 {
		j := i + 50
		if j > len(vars) {
			j = len(vars)
		}
		var sb strings.Builder
		sb.WriteString("(get-value (")
		for _, v := range vars[i:j] {
			sb.WriteString(v.ref())
			sb.WriteByte(' ')
		}
		sb.WriteString("))\n")
		lines, err := s.roundTrip(sb.String())
		if err != nil {
			return nil, err
		}
		txt := strings.Join(lines, " ")
		sx, err := parseSexp(txt)
		if err != nil {
			return nil, fmt.Errorf("get-value parse: %v: %s", err, txt)
		}
		for _, pair := range sx.list {
			if len(pair.list) != 2 {
				continue
			}
			name := strings.Trim(pair.list[0].String(), "|")
			res[name] = pair.list[1].String()
		}
	}
	return res, nil
}

// ---------- tiny s-expression parser ----------

type sexp struct {
	atom string
	list []*sexp
	isL  bool
}

func (s *sexp) String() string {
	if !s.isL {
		return s.atom
	}
	parts := make([]string, len(s.list))
	for i, c := range s.list {
		parts[i] = c.String()
	}
	return "(" + strings.Join(parts, " ") + ")"
}

func parseSexp(txt string) (*sexp, error) {
	pos := 0
	var parse func() (*sexp, error)
	skip := func() {
		for pos < len(txt) && (txt[pos] == ' ' || txt[pos] == '\n' || txt[pos] == '\t') {
			pos++
		}
	}
	parse = func() (*sexp, error) {
		skip()
		if pos >= len(txt) {
			return nil, fmt.Errorf("eof")
		}
		if txt[pos] == '(' {
			pos++
			n := &sexp{isL: true}
			for {
				skip()
				if pos >= len(txt) {
					return nil, fmt.Errorf("unterminated list")
				}
				if txt[pos] == ')' {
					pos++
					return n, nil
				}
				c, err := parse()
				if err != nil {
					return nil, err
				}
				n.list = append(n.list, c)
			}
		}
		start := pos
		if txt[pos] == '|' {
			pos++
			for pos < len(txt) && txt[pos] != '|' {
				pos++
			}
			pos++
			return &sexp{atom: txt[start:pos]}, nil
		}
		for pos < len(txt) && txt[pos] != ' ' && txt[pos] != '(' && txt[pos] != ')' && txt[pos] != '\n' {
			pos++
		}
		return &sexp{atom: txt[start:pos]}, nil
	}
	return parse()
}
