package main

import (
	"fmt"
	"go/types"
	"unicode/utf8"

	"golang.org/x/tools/go/ssa"
)

// ---------- maps ----------

func (ip *Interp) mapGet(m *MapObj, key Value) (Value, bool) {
	if m == nil {
		return nil, false
	}
	for _, e := range m.entries {
		if ip.branch(ip.valuesEqual(e.k, key)) {
			return e.v, true
		}
	}
	return nil, false
}

func (ip *Interp) mapSet(m *MapObj, key, val Value) {
	for _, e := range m.entries {
		if ip.branch(ip.valuesEqual(e.k, key)) {
			e.v = val
			return
		}
	}
	m.entries = append(m.entries, &mapEntry{k: key, v: val})
}

func (ip *Interp) mapDelete(m *MapObj, key Value) {
	if m == nil {
		return
	}
	for i, e := range m.entries {
		if ip.branch(ip.valuesEqual(e.k, key)) {
			m.entries = append(append([]*mapEntry{}, m.entries[:i]...), m.entries[i+1:]...)
			return
		}
	}
}

type rangeIter struct {
	m       *MapObj
	visited map[*mapEntry]bool
	s       *Str
	pos     int
}

func (ip *Interp) makeRange(v Value) Value {
	switch x := v.(type) {
	case *MapObj:
		if x != nil {
			ip.accessRead(x, "a map")
		}
		return &rangeIter{m: x, visited: map[*mapEntry]bool{}}
	case *Str:
		return &rangeIter{s: x}
	}
	ip.unsupported(fmt.Sprintf("range over %T", v))
	return nil
}

func (ip *Interp) rangeNext(it *rangeIter, x *ssa.Next) Value {
	tb := ip.tb
	tt := x.Type().(*types.Tuple)
	if x.IsString {
		s := it.s
		if it.pos >= s.Len() {
			return Tuple{tb.BoolConst(false), tb.BVConst(0, 64), tb.BVConst(0, 32)}
		}
		i := it.pos
		if !s.sym {
			r, sz := utf8.DecodeRuneInString(s.s[i:])
			it.pos += sz
			return Tuple{tb.BoolConst(true), tb.BVConst(uint64(i), 64), tb.BVConst(uint64(r), 32)}
		}
		b := s.b[i]
		// ASCII-only claim for symbolic strings: non-ASCII bytes are outside the bound.
		ip.assumeStated(tb.BVCmp("bvult", b, tb.BVConst(0x80, 8)), "range-over-string: symbolic bytes are ASCII")
		it.pos++
		return Tuple{tb.BoolConst(true), tb.BVConst(uint64(i), 64), tb.ZeroExt(b, 32)}
	}
	// map
	var remaining []*mapEntry
	if it.m != nil {
		for _, e := range it.m.entries {
			if !it.visited[e] {
				remaining = append(remaining, e)
			}
		}
	}
	if len(remaining) == 0 {
		return Tuple{tb.BoolConst(false), ip.zero(tt.At(1).Type()), ip.zero(tt.At(2).Type())}
	}
	k := 0
	if ip.opt.MapOrderAll && len(remaining) > 1 {
		k = ip.choose(len(remaining))
	}
	e := remaining[k]
	it.visited[e] = true
	return Tuple{tb.BoolConst(true), e.k, e.v}
}

// assumeStated adds an assumption that is part of the stated bound of the claim.
func (ip *Interp) assumeStated(c *Term, what string) {
	if c.isConst && c.Bool() {
		return
	}
	found := false
	for _, n := range ip.res.Notes {
		if n == what {
			found = true
		}
	}
	if !found {
		ip.res.Notes = append(ip.res.Notes, what)
	}
	ip.assume(c)
}

// ---------- calls ----------

func (ip *Interp) evalArgs(fr *Frame, cc *ssa.CallCommon) []Value {
	args := make([]Value, len(cc.Args))
	for i, a := range cc.Args {
		args[i] = ip.get(fr, a)
	}
	return args
}

func (ip *Interp) prepareCall(fr *Frame, cc *ssa.CallCommon) *deferred {
	args := ip.evalArgs(fr, cc)
	if cc.IsInvoke() {
		recv := ip.get(fr, cc.Value).(Iface)
		fn, full := ip.resolveInvoke(recv, cc)
		return &deferred{fn: fn, args: full, call: cc}
	}
	return &deferred{fn: ip.get(fr, cc.Value), args: args, call: cc}
}

func (ip *Interp) resolveInvoke(recv Iface, cc *ssa.CallCommon) (Value, []Value) {
	if recv.t == nil {
		ip.goPanic("nil pointer dereference (method call on nil interface: " + cc.Method.Name() + ")")
	}
	args := make([]Value, 0, len(cc.Args)+1)
	if ot, ok := recv.t.(*opaqueType); ok {
		name := cc.Method.Name()
		rv := recv
		return &Closure{name: "opaque:" + ot.name + "." + name, native: func(ip *Interp, a []Value) Value {
			return ip.opaqueInvoke(rv, name, a, cc)
		}}, args
	}
	fn := ip.prog.LookupMethod(recv.t, cc.Method.Pkg(), cc.Method.Name())
	if fn == nil {
		ip.unsupported(fmt.Sprintf("method %s not found on %s", cc.Method.Name(), recv.t))
	}
	args = append(args, recv.v)
	return &Closure{fn: fn}, args
}

func (ip *Interp) doCall(fr *Frame, cc *ssa.CallCommon) Value {
	if cc.IsInvoke() {
		recv := ip.get(fr, cc.Value).(Iface)
		fn, pre := ip.resolveInvoke(recv, cc)
		args := append(pre, ip.evalArgs(fr, cc)...)
		return ip.callValue(fn, args, cc)
	}
	args := ip.evalArgs(fr, cc)
	switch f := cc.Value.(type) {
	case *ssa.Function:
		return ip.callFunction(f, args, nil)
	case *ssa.Builtin:
		return ip.callBuiltin(f.Name(), args, cc)
	}
	return ip.callValue(ip.get(fr, cc.Value), args, cc)
}

func (ip *Interp) intConst(v int, w int) *Term { return ip.tb.BVConst(uint64(int64(v)), w) }

func (ip *Interp) callBuiltin(name string, args []Value, cc *ssa.CallCommon) Value {
	tb := ip.tb
	switch name {
	case "len":
		switch x := args[0].(type) {
		case *Str:
			return ip.intConst(x.Len(), 64)
		case Slice:
			return ip.intConst(x.len, 64)
		case *MapObj:
			if x == nil {
				return ip.intConst(0, 64)
			}
			return ip.intConst(len(x.entries), 64)
		case *ChanObj:
			if x == nil {
				return ip.intConst(0, 64)
			}
			ip.schedPoint("len(chan)", x)
			return ip.intConst(len(x.buf), 64)
		case Agg:
			return ip.intConst(len(x.elems), 64)
		case Ptr:
			return ip.intConst(len(x.c.elems), 64)
		}
	case "cap":
		switch x := args[0].(type) {
		case Slice:
			return ip.intConst(x.cap, 64)
		case *ChanObj:
			if x == nil {
				return ip.intConst(0, 64)
			}
			return ip.intConst(x.cap, 64)
		case Agg:
			return ip.intConst(len(x.elems), 64)
		}
	case "append":
		s := args[0].(Slice)
		var add []Value
		var elemT types.Type
		if cc != nil {
			elemT = under(cc.Args[0].Type()).(*types.Slice).Elem()
		}
		switch y := args[1].(type) {
		case Slice:
			for i := 0; i < y.len; i++ {
				ip.cellRead(y.arr.elems[y.off+i])
				add = append(add, ip.load(y.arr.elems[y.off+i]))
			}
		case *Str:
			for _, b := range ip.strBytes(y) {
				add = append(add, b)
			}
		default:
			ip.unsupported("append of non-slice")
		}
		if len(add) == 0 {
			return s
		}
		need := s.len + len(add)
		if need <= s.cap {
			for i, v := range add {
				ip.cellWrite(s.arr.elems[s.off+s.len+i])
				ip.store(s.arr.elems[s.off+s.len+i], v)
			}
			return Slice{arr: s.arr, off: s.off, len: need, cap: s.cap}
		}
		nc := s.cap * 2
		if nc < need {
			nc = need
		}
		if elemT == nil {
			if s.arr == nil {
				ip.unsupported("append without element type")
			}
			elemT = s.arr.typ.(*types.Array).Elem()
		}
		arr := ip.newArrayCell(elemT, nc)
		for i := 0; i < s.len; i++ {
			ip.cellRead(s.arr.elems[s.off+i])
			ip.store(arr.elems[i], ip.load(s.arr.elems[s.off+i]))
		}
		for i, v := range add {
			ip.store(arr.elems[s.len+i], v)
		}
		return Slice{arr: arr, off: 0, len: need, cap: nc}
	case "copy":
		d := args[0].(Slice)
		var src []Value
		switch y := args[1].(type) {
		case Slice:
			for i := 0; i < y.len; i++ {
				ip.cellRead(y.arr.elems[y.off+i])
				src = append(src, ip.load(y.arr.elems[y.off+i]))
			}
		case *Str:
			for _, b := range ip.strBytes(y) {
				src = append(src, b)
			}
		}
		n := d.len
		if len(src) < n {
			n = len(src)
		}
		for i := 0; i < n; i++ {
			ip.cellWrite(d.arr.elems[d.off+i])
			ip.store(d.arr.elems[d.off+i], src[i])
		}
		return ip.intConst(n, 64)
	case "delete":
		m, _ := args[0].(*MapObj)
		if m != nil {
			ip.accessWrite(m, "a map")
		}
		ip.mapDelete(m, args[1])
		return nil
	case "close":
		ip.chanClose(args[0].(*ChanObj))
		return nil
	case "panic":
		panic(&GoPanic{val: args[0], reason: "explicit panic: " + ip.describe(args[0])})
	case "recover":
		g := ip.cur
		if g.recoverFrame != nil && g.recoverFrame.panicking != nil {
			p := g.recoverFrame.panicking
			g.recoverFrame.panicking = nil
			if iv, ok := p.val.(Iface); ok {
				return iv
			}
			return Iface{t: &opaqueType{"panicvalue"}, v: &Opaque{kind: "panic"}}
		}
		return Iface{}
	case "print", "println":
		return nil
	case "min", "max":
		r := args[0]
		for _, a := range args[1:] {
			r = ip.minmax(name, r, a, cc.Args[0].Type())
		}
		return r
	case "clear":
		switch x := args[0].(type) {
		case *MapObj:
			if x != nil {
				x.entries = nil
			}
		case Slice:
			for i := 0; i < x.len; i++ {
				c := x.arr.elems[x.off+i]
				ip.store(c, ip.zero(c.typ))
			}
		}
		return nil
	case "ssa:wrapnilchk":
		if p, ok := args[0].(Ptr); ok && p.c == nil {
			ip.goPanic("nil pointer dereference (value method called via nil pointer)")
		}
		return args[0]
	}
	_ = tb
	ip.unsupported("builtin " + name)
	return nil
}

func (ip *Interp) minmax(name string, a, b Value, t types.Type) Value {
	tb := ip.tb
	if sa, ok := a.(*Str); ok {
		sb := b.(*Str)
		lt := ip.strLess(sa, sb)
		if ip.branch(lt) == (name == "min") {
			return sa
		}
		return sb
	}
	x, y := a.(*Term), b.(*Term)
	if x.sort.K == KFP {
		return ip.fpMinMax(name == "min", x, y)
	}
	_, signed, _ := intWidth(t)
	op := "bvult"
	if signed {
		op = "bvslt"
	}
	lt := tb.BVCmp(op, x, y)
	if name == "min" {
		return tb.Ite(lt, x, y)
	}
	return tb.Ite(lt, y, x)
}

// fpMinMax follows Go's builtin min/max and math.Min/Max: NaN if either is NaN, -0 < +0.
func (ip *Interp) fpMinMax(isMin bool, x, y *Term) *Term {
	tb := ip.tb
	nan := tb.FPConst(nanValue())
	anyNaN := tb.Or(tb.FPIsNaN(x), tb.FPIsNaN(y))
	bothZero := tb.And(tb.FPIsZero(x), tb.FPIsZero(y))
	var pick *Term
	if isMin {
		zero := tb.Ite(tb.FPIsNeg(x), x, y)
		pick = tb.Ite(bothZero, zero, tb.Ite(tb.FPCmp("fp.lt", x, y), x, y))
	} else {
		zero := tb.Ite(tb.FPIsNeg(x), y, x)
		pick = tb.Ite(bothZero, zero, tb.Ite(tb.FPCmp("fp.gt", x, y), x, y))
	}
	return tb.Ite(anyNaN, nan, pick)
}
