package main

import (
	"encoding/json"
	"fmt"
	"go/token"
	"math"
	"os"
	"runtime"
	"sort"
	"strconv"
	"strings"
	"sync"
	"time"

	"golang.org/x/tools/go/ssa"
)

const tokenADD = token.ADD

func runtimeStack(buf []byte) int { return runtime.Stack(buf, false) }

type Config struct {
	MaxSteps        int
	Unwind          int
	MaxMakeSlice    int
	StubPkgs        []string
	RealPkgs        []string // exceptions to StubPkgs prefixes
	InitPkgs        []string
	ModelFor        map[string]*ssa.Function
	Workers         int
	SolverBin       string
	SolverTimeoutMs int
	MaxPaths        int
	MaxWall         time.Duration
	Seed            int
	MaxPreempt      int
	MapOrderAll     bool
	SymbolicNow     bool
	AllowPanic      bool
	CoverModels     bool
	DumpSMT         string
	AbstractTime    bool
	SleepEnv        bool // time.Sleep waits for a timer firing granted by the harness (polling loops)
	NoSlice         bool
	NoPOR           bool
	Debug           bool
	NoRace          bool
}

type PathOpts struct {
	MapOrderAll bool
	SymbolicNow bool
}

func (c *Config) isStubPkg(path string) bool {
	if path == "" {
		return false
	}
	for _, r := range c.RealPkgs {
		if path == r {
			return false
		}
	}
	for _, p := range c.StubPkgs {
		if path == p || strings.HasPrefix(path, p+"/") {
			return true
		}
	}
	return false
}

func (c *Config) initAllowed(path string) bool {
	if c.isStubPkg(path) {
		return false
	}
	if strings.HasSuffix(path, "/verifrt") || strings.HasSuffix(path, "/verifmodel") {
		return true
	}
	if strings.HasPrefix(path, zenoPath) {
		return true
	}
	for _, p := range c.InitPkgs {
		if p == path {
			return true
		}
	}
	return false
}

// ---------- package initialisation (lenient) ----------

func (ip *Interp) ensureInit(pkg *ssa.Package) {
	if ip.initDone[pkg] {
		return
	}
	ip.initDone[pkg] = true
	if !ip.cfg.initAllowed(pkg.Pkg.Path()) {
		return
	}
	fn := pkg.Func("init")
	if fn == nil || fn.Blocks == nil {
		return
	}
	saved := ip.inInit
	ip.inInit = true
	savedDepth := ip.depth
	func() {
		defer func() {
			if r := recover(); r != nil {
				if pe, ok := r.(*PathEnd); ok && (pe.kind == "unsupported" || pe.kind == "unwind") {
					ip.note("init of " + pkg.Pkg.Path() + " partially executed: " + pe.msg)
					return
				}
				if gp, ok := r.(*GoPanic); ok {
					ip.note("init of " + pkg.Pkg.Path() + " panicked: " + gp.reason)
					return
				}
				panic(r)
			}
		}()
		fr := &Frame{fn: fn, locals: map[ssa.Value]Value{}, visits: map[*ssa.BasicBlock]int{}}
		ip.execInit(fr)
	}()
	ip.depth = savedDepth
	ip.inInit = saved
}

// execInit runs a package's synthetic init function; each instruction is lenient.
func (ip *Interp) execInit(fr *Frame) {
	b := fr.fn.Blocks[0]
	for {
		var next *ssa.BasicBlock
		for _, ins := range b.Instrs {
			ip.cur.curFn, ip.cur.curInstr = fr.fn, ins
			switch x := ins.(type) {
			case *ssa.Jump:
				next = b.Succs[0]
			case *ssa.If:
				c := ip.get(fr, x.Cond).(*Term)
				if ip.branch(c) {
					next = b.Succs[0]
				} else {
					next = b.Succs[1]
				}
			case *ssa.Return:
				return
			case *ssa.Call:
				if f, ok := x.Call.Value.(*ssa.Function); ok && f.Name() == "init" && f.Pkg != nil && f.Pkg != fr.fn.Pkg {
					ip.ensureInit(f.Pkg)
					continue
				}
				ip.lenient(fr, ins)
			default:
				ip.lenient(fr, ins)
			}
			if next != nil {
				break
			}
		}
		if next == nil {
			return
		}
		b = next
	}
}

func (ip *Interp) lenient(fr *Frame, ins ssa.Instruction) {
	depth := ip.depth
	defer func() {
		if r := recover(); r != nil {
			pe, ok := r.(*PathEnd)
			_, isPanic := r.(*GoPanic)
			if (ok && (pe.kind == "unsupported" || pe.kind == "unwind")) || isPanic {
				ip.depth = depth
				if v, isV := ins.(ssa.Value); isV {
					func() {
						defer func() { recover() }()
						fr.locals[v] = ip.zero(v.Type())
					}()
				}
				return
			}
			panic(r)
		}
	}()
	ip.exec(fr, ins)
}

// ---------- model decoding ----------

func parseBVLit(s string) (uint64, bool) {
	s = strings.TrimSpace(s)
	if strings.HasPrefix(s, "#x") {
		v, err := strconv.ParseUint(s[2:], 16, 64)
		return v, err == nil
	}
	if strings.HasPrefix(s, "#b") {
		v, err := strconv.ParseUint(s[2:], 2, 64)
		return v, err == nil
	}
	if strings.HasPrefix(s, "(_ bv") {
		f := strings.Fields(s[5:])
		v, err := strconv.ParseUint(f[0], 10, 64)
		return v, err == nil
	}
	return 0, false
}

func parseFPLit(s string) (float64, bool) {
	s = strings.TrimSpace(s)
	switch {
	case strings.HasPrefix(s, "(_ NaN"):
		return math.NaN(), true
	case strings.HasPrefix(s, "(_ +oo"):
		return math.Inf(1), true
	case strings.HasPrefix(s, "(_ -oo"):
		return math.Inf(-1), true
	case strings.HasPrefix(s, "(_ +zero"):
		return 0, true
	case strings.HasPrefix(s, "(_ -zero"):
		return math.Copysign(0, -1), true
	case strings.HasPrefix(s, "(fp "):
		f := strings.Fields(strings.TrimSuffix(s[4:], ")"))
		if len(f) != 3 {
			return 0, false
		}
		sg, ok1 := parseBVLit(f[0])
		ex, ok2 := parseBVLit(f[1])
		mn, ok3 := parseBVLit(f[2])
		if !ok1 || !ok2 || !ok3 {
			return 0, false
		}
		return math.Float64frombits(sg<<63 | ex<<52 | mn), true
	}
	return 0, false
}

func decodeSymVar(sv *symVar, m Model) interface{} {
	val := func(t *Term) mval { return m[t.name] }
	switch sv.Kind {
	case "int":
		return strconv.FormatInt(sext(val(sv.Terms[0]).bv, sv.Width), 10)
	case "uint":
		return strconv.FormatUint(val(sv.Terms[0]).bv, 10)
	case "bool":
		return val(sv.Terms[0]).bv != 0
	case "float64":
		return fmt.Sprintf("0x%016x", math.Float64bits(val(sv.Terms[0]).f))
	case "string":
		var sb strings.Builder
		for i := 0; i < sv.Len; i++ {
			fmt.Fprintf(&sb, "%02x", val(sv.Terms[1+i]).bv&0xff)
		}
		return map[string]interface{}{"hex": sb.String()}
	}
	return nil
}

// ---------- exploration ----------

type HarnessResult struct {
	Harness     string                            `json:"harness"`
	Paths       int                               `json:"paths"`
	Ends        map[string]int                    `json:"ends"`
	EndMsgs     map[string]string                 `json:"end_msgs"`
	Asserts     map[string]int                    `json:"asserts_discharged"`
	Concrete    map[string]int                    `json:"asserts_concrete"`
	Covers      []string                          `json:"covers"`
	CoverModels map[string]map[string]interface{} `json:"cover_models,omitempty"`
	Violations  []*Violation                      `json:"violations"`
	Unknown     []string                          `json:"unknown"`
	Notes       []string                          `json:"notes"`
	Complete    bool                              `json:"complete"`
	Queries     int                               `json:"solver_queries"`
	Sat         int                               `json:"solver_sat"`
	Unsat       int                               `json:"solver_unsat"`
	UnknownQ    int                               `json:"solver_unknown"`
	SolverSec   float64                           `json:"solver_s"`
	WallSec     float64                           `json:"wall_s"`
	Steps       int                               `json:"ssa_instructions_executed"`
	SolverErrs  []string                          `json:"solver_errors"`
	Functions   []string                          `json:"functions_executed"`
	Decisions   int                               `json:"max_decisions"`
	Wins        map[string]int                    `json:"solver_wins"`
}

type Explorer struct {
	prog    *ssa.Program
	cfg     *Config
	harness *ssa.Function
	mu      sync.Mutex
	cond    *sync.Cond
	stack   []workItem
	active  int
	res     *HarnessResult
	seenV   map[string]int
	notes   map[string]bool
	unk     map[string]bool
	fnSeen  map[string]bool
	stop    bool
	start   time.Time
	sem     chan struct{}
}

func (e *Explorer) Run() *HarnessResult {
	e.res = &HarnessResult{Harness: e.harness.String(), Ends: map[string]int{}, EndMsgs: map[string]string{},
		Asserts: map[string]int{}, Concrete: map[string]int{}, CoverModels: map[string]map[string]interface{}{}}
	e.seenV = map[string]int{}
	e.notes = map[string]bool{}
	e.unk = map[string]bool{}
	e.fnSeen = map[string]bool{}
	e.cond = sync.NewCond(&e.mu)
	e.stack = []workItem{{prefix: []int{}, model: Model{}}}
	e.start = time.Now()
	covers := map[string]bool{}
	var wg sync.WaitGroup
	var solvers []*Solver
	for w := 0; w < e.cfg.Workers; w++ {
		s, err := NewSolver(e.cfg.SolverBin, e.cfg.SolverTimeoutMs, e.cfg.Seed)
		if err != nil {
			panic(err)
		}
		if e.cfg.DumpSMT != "" && w == 0 {
			f, _ := os.Create(e.cfg.DumpSMT)
			s.log = f
		}
		s.SlowDir = os.Getenv("VERIF_SLOWDIR")
		solvers = append(solvers, s)
		wg.Add(1)
		go func(s *Solver) {
			defer wg.Done()
			for {
				e.mu.Lock()
				for len(e.stack) == 0 && e.active > 0 && !e.stop {
					e.cond.Wait()
				}
				if e.stop || (len(e.stack) == 0 && e.active == 0) {
					e.mu.Unlock()
					e.cond.Broadcast()
					return
				}
				item := e.stack[len(e.stack)-1]
				e.stack = e.stack[:len(e.stack)-1]
				e.active++
				e.mu.Unlock()

				if e.sem != nil {
					e.sem <- struct{}{}
				}
				pr, fns := runPath(e.prog, e.cfg, e.harness, item.prefix, item.model, s)
				if e.sem != nil {
					<-e.sem
				}

				e.mu.Lock()
				e.active--
				e.res.Paths++
				e.res.Ends[pr.End]++
				if pr.EndMsg != "" {
					if _, ok := e.res.EndMsgs[pr.End]; !ok {
						e.res.EndMsgs[pr.End] = pr.EndMsg
					}
				}
				for l, n := range pr.Asserts {
					e.res.Asserts[l] += n
				}
				for l, n := range pr.Concrete {
					e.res.Concrete[l] += n
				}
				for l := range pr.Covers {
					covers[l] = true
				}
				for l, m := range pr.CoverModels {
					if _, ok := e.res.CoverModels[l]; !ok {
						e.res.CoverModels[l] = m
					}
				}
				for _, v := range pr.Violations {
					key := v.Kind + ":" + v.Label
					e.seenV[key]++
					if e.seenV[key] <= 3 {
						e.res.Violations = append(e.res.Violations, v)
					}
				}
				for _, u := range pr.Unknown {
					e.unk[u] = true
				}
				for _, n := range pr.Notes {
					e.notes[n] = true
				}
				for _, f := range fns {
					e.fnSeen[f] = true
				}
				e.res.Steps += pr.Steps
				if len(pr.Trace) > e.res.Decisions {
					e.res.Decisions = len(pr.Trace)
				}
				for i, np := range pr.NewPrefixes {
					e.stack = append(e.stack, workItem{prefix: np, model: pr.NewModels[i]})
				}
				if e.cfg.MaxPaths > 0 && e.res.Paths >= e.cfg.MaxPaths {
					e.stop = true
				}
				if e.cfg.MaxWall > 0 && time.Since(e.start) > e.cfg.MaxWall {
					e.stop = true
				}
				e.mu.Unlock()
				e.cond.Broadcast()
			}
		}(s)
	}
	stopProg := make(chan struct{})
	go func() {
		tk := time.NewTicker(30 * time.Second)
		defer tk.Stop()
		for {
			select {
			case <-stopProg:
				return
			case <-tk.C:
				e.mu.Lock()
				fmt.Fprintf(os.Stderr, "[engine] %s progress: paths=%d queue=%d active=%d ends=%v violations=%d t=%.0fs\n",
					e.harness.Name(), e.res.Paths, len(e.stack), e.active, e.res.Ends, len(e.res.Violations), time.Since(e.start).Seconds())
				e.mu.Unlock()
			}
		}
	}()
	wg.Wait()
	close(stopProg)
	for _, s := range solvers {
		e.res.Queries += s.Queries
		e.res.Sat += s.Sat
		e.res.Unsat += s.Unsat
		e.res.UnknownQ += s.Unknown
		e.res.SolverSec += s.Time.Seconds()
		if e.res.Wins == nil {
			e.res.Wins = map[string]int{}
		}
		for k, v := range s.Wins {
			e.res.Wins[k] += v
		}
		for _, er := range s.Errors {
			if len(e.res.SolverErrs) < 5 {
				e.res.SolverErrs = append(e.res.SolverErrs, er)
			}
		}
		s.Close()
	}
	for l := range covers {
		e.res.Covers = append(e.res.Covers, l)
	}
	sort.Strings(e.res.Covers)
	for n := range e.notes {
		e.res.Notes = append(e.res.Notes, n)
	}
	sort.Strings(e.res.Notes)
	for u := range e.unk {
		e.res.Unknown = append(e.res.Unknown, u)
	}
	sort.Strings(e.res.Unknown)
	for f := range e.fnSeen {
		e.res.Functions = append(e.res.Functions, f)
	}
	sort.Strings(e.res.Functions)
	e.res.Complete = !e.stop && len(e.stack) == 0
	for _, k := range []string{"unsupported", "unwind", "steps", "engine-error"} {
		if e.res.Ends[k] > 0 {
			e.res.Complete = false
		}
	}
	if len(e.res.Unknown) > 0 || len(e.res.SolverErrs) > 0 {
		e.res.Complete = false
	}
	e.res.WallSec = time.Since(e.start).Seconds()
	return e.res
}

type workItem struct {
	prefix []int
	model  Model
}

func runPath(prog *ssa.Program, cfg *Config, harness *ssa.Function, prefix []int, model Model, s *Solver) (*PathResult, []string) {
	s.Reset()
	ip := &Interp{prog: prog, cfg: cfg, tb: NewTermBuilder(), solver: s, prefix: prefix,
		globals: map[*ssa.Global]*Cell{}, extra: map[*Cell]interface{}{}, symBy: map[string]*symVar{},
		initDone: map[*ssa.Package]bool{}, nameCount: map[string]int{}, maxPreempt: cfg.MaxPreempt,
		wantCoverModels: cfg.CoverModels}
	ip.curModel = model
	ip.sleep = map[*GoR]bool{}
	ip.opt = &PathOpts{MapOrderAll: cfg.MapOrderAll, SymbolicNow: cfg.SymbolicNow}
	ip.res = &PathResult{Asserts: map[string]int{}, Concrete: map[string]int{}, Covers: map[string]bool{},
		CoverModels: map[string]map[string]interface{}{}}
	ip.conc = &concState{pathDone: make(chan struct{}), envTicks: 0}
	ip.fnSeen = map[string]bool{}
	g0 := &GoR{id: 0, name: "main", wake: make(chan struct{}), vc: vclock{1}}
	ip.gs = []*GoR{g0}
	ip.cur = g0
	ip.startGoroutine(g0, func() { ip.callFunction(harness, nil, nil) }, true)
	<-ip.conc.pathDone
	doneCh := make(chan struct{})
	go func() { ip.conc.wg.Wait(); close(doneCh) }()
loop:
	for {
		select {
		case <-doneCh:
			break loop
		default:
		}
		for _, g := range ip.gs {
			select {
			case g.wake <- struct{}{}:
			default:
			}
		}
		time.Sleep(20 * time.Microsecond)
	}
	ip.res.Trace = ip.trace
	if ip.conc.end.kind == "done" && ip.conc.end.msg == "" && ip.wantCoverModels && ip.curModel != nil && len(ip.res.Violations) == 0 {
		dm := ip.decodeModel(ip.curModel)
		for l := range ip.res.Covers {
			ip.res.CoverModels[l] = dm
		}
	}
	ip.res.End = ip.conc.end.kind
	ip.res.EndMsg = ip.conc.end.msg
	ip.res.Steps = ip.steps
	var fns []string
	for f := range ip.fnSeen {
		fns = append(fns, f)
	}
	return ip.res, fns
}

func writeJSON(path string, v interface{}) {
	b, err := json.MarshalIndent(v, "", " ")
	if err != nil {
		panic(err)
	}
	if err := os.WriteFile(path, b, 0o644); err != nil {
		panic(err)
	}
}
