package main

// Concrete evaluation of terms under a model. Used to avoid solver calls: the
// current path keeps a model of its path condition; a branch whose condition is
// true under that model is known feasible without asking the solver.

import (
	"math"
)

type mval struct {
	bv uint64
	f  float64
}

type Model map[string]mval

type evaluator struct {
	m     Model
	cache map[int]mval
	ok    bool
}

func boolVal(b bool) mval {
	if b {
		return mval{bv: 1}
	}
	return mval{}
}

func (e *evaluator) eval(t *Term) mval {
	if t.isConst {
		if t.sort.K == KFP {
			return mval{f: t.f}
		}
		return mval{bv: t.bv}
	}
	if v, ok := e.cache[t.id]; ok {
		return v
	}
	v := e.eval1(t)
	e.cache[t.id] = v
	return v
}

func (e *evaluator) eval1(t *Term) mval {
	if t.op == "var" {
		return e.m[t.name] // missing => zero value: fresh variables are unconstrained
	}
	a := func(i int) mval { return e.eval(t.args[i]) }
	w := t.sort.W
	switch t.op {
	case "not":
		return boolVal(a(0).bv == 0)
	case "and":
		return boolVal(a(0).bv != 0 && a(1).bv != 0)
	case "or":
		return boolVal(a(0).bv != 0 || a(1).bv != 0)
	case "ite":
		if a(0).bv != 0 {
			return a(1)
		}
		return a(2)
	case "=":
		if t.args[0].sort.K == KFP {
			x, y := a(0).f, a(1).f
			// SMT-LIB = on FP: identical values (NaN = NaN, +0 != -0)
			if math.IsNaN(x) || math.IsNaN(y) {
				return boolVal(math.IsNaN(x) && math.IsNaN(y))
			}
			return boolVal(math.Float64bits(x) == math.Float64bits(y))
		}
		return boolVal(a(0).bv == a(1).bv)
	case "fp.eq":
		return boolVal(a(0).f == a(1).f)
	case "fp.lt":
		return boolVal(a(0).f < a(1).f)
	case "fp.leq":
		return boolVal(a(0).f <= a(1).f)
	case "fp.gt":
		return boolVal(a(0).f > a(1).f)
	case "fp.geq":
		return boolVal(a(0).f >= a(1).f)
	case "fp.isNaN":
		return boolVal(math.IsNaN(a(0).f))
	case "fp.isInfinite":
		return boolVal(math.IsInf(a(0).f, 0))
	case "fp.isNegative":
		return boolVal(!math.IsNaN(a(0).f) && math.Signbit(a(0).f))
	case "fp.isZero":
		return boolVal(a(0).f == 0)
	case "fp.add":
		return mval{f: a(0).f + a(1).f}
	case "fp.sub":
		return mval{f: a(0).f - a(1).f}
	case "fp.mul":
		return mval{f: a(0).f * a(1).f}
	case "fp.div":
		return mval{f: a(0).f / a(1).f}
	case "fp.neg":
		return mval{f: -a(0).f}
	case "fp.abs":
		return mval{f: math.Abs(a(0).f)}
	case "fp.roundToIntegral.RTP":
		return mval{f: math.Ceil(a(0).f)}
	case "fp.roundToIntegral.RTN":
		return mval{f: math.Floor(a(0).f)}
	case "fp.roundToIntegral.RTZ":
		return mval{f: math.Trunc(a(0).f)}
	case "fp.roundToIntegral.RNE":
		return mval{f: math.RoundToEven(a(0).f)}
	case "to_fp_signed":
		return mval{f: float64(sext(a(0).bv, t.args[0].sort.W))}
	case "to_fp_unsigned":
		return mval{f: float64(a(0).bv)}
	case "to_fp_bits":
		return mval{f: math.Float64frombits(a(0).bv)}
	case "fp.to_sbv":
		f := a(0).f
		// unspecified outside the range in SMT-LIB; every use here is guarded by an ite on the range
		if math.IsNaN(f) || f >= 9223372036854775808.0 || f < -9223372036854775808.0 {
			e.ok = e.ok && true
			return mval{bv: 0}
		}
		return mval{bv: uint64(int64(f)) & mask(w)}
	case "fp.to_ubv":
		f := a(0).f
		if math.IsNaN(f) || f >= 18446744073709551616.0 || f <= -1 {
			return mval{bv: 0}
		}
		return mval{bv: uint64(f) & mask(w)}
	case "extract":
		return mval{bv: (a(0).bv >> uint(t.param2)) & mask(w)}
	case "zero_extend":
		return mval{bv: a(0).bv}
	case "sign_extend":
		return mval{bv: uint64(sext(a(0).bv, t.args[0].sort.W)) & mask(w)}
	case "bvneg":
		return mval{bv: (-a(0).bv) & mask(w)}
	case "bvnot":
		return mval{bv: (^a(0).bv) & mask(w)}
	}
	// binary bit-vector operators and comparisons
	if len(t.args) == 2 && t.args[0].sort.K == KBV {
		x, y := a(0).bv, a(1).bv
		ow := t.args[0].sort.W
		sx, sy := sext(x, ow), sext(y, ow)
		switch t.op {
		case "bvadd":
			return mval{bv: (x + y) & mask(w)}
		case "bvsub":
			return mval{bv: (x - y) & mask(w)}
		case "bvmul":
			return mval{bv: (x * y) & mask(w)}
		case "bvand":
			return mval{bv: x & y}
		case "bvor":
			return mval{bv: x | y}
		case "bvxor":
			return mval{bv: x ^ y}
		case "bvshl":
			if y >= uint64(w) {
				return mval{}
			}
			return mval{bv: (x << y) & mask(w)}
		case "bvlshr":
			if y >= uint64(w) {
				return mval{}
			}
			return mval{bv: x >> y}
		case "bvashr":
			if y >= uint64(w) {
				if sx < 0 {
					return mval{bv: mask(w)}
				}
				return mval{}
			}
			return mval{bv: uint64(sx>>y) & mask(w)}
		case "bvudiv":
			if y == 0 {
				return mval{bv: mask(w)}
			}
			return mval{bv: x / y}
		case "bvurem":
			if y == 0 {
				return mval{bv: x}
			}
			return mval{bv: x % y}
		case "bvsdiv":
			if y == 0 {
				if sx < 0 {
					return mval{bv: 1}
				}
				return mval{bv: mask(w)}
			}
			if sy == -1 {
				return mval{bv: uint64(-sx) & mask(w)}
			}
			return mval{bv: uint64(sx/sy) & mask(w)}
		case "bvsrem":
			if y == 0 {
				return mval{bv: x}
			}
			if sy == -1 {
				return mval{}
			}
			return mval{bv: uint64(sx%sy) & mask(w)}
		case "bvult":
			return boolVal(x < y)
		case "bvule":
			return boolVal(x <= y)
		case "bvugt":
			return boolVal(x > y)
		case "bvuge":
			return boolVal(x >= y)
		case "bvslt":
			return boolVal(sx < sy)
		case "bvsle":
			return boolVal(sx <= sy)
		case "bvsgt":
			return boolVal(sx > sy)
		case "bvsge":
			return boolVal(sx >= sy)
		}
	}
	e.ok = false
	return mval{}
}

// evalBool evaluates a boolean term under the path's current model.
func (ip *Interp) evalBool(t *Term) (bool, bool) {
	if ip.curModel == nil {
		return false, false
	}
	e := &evaluator{m: ip.curModel, cache: map[int]mval{}, ok: true}
	v := e.eval(t)
	return v.bv != 0, e.ok
}
