package main

import (
	"fmt"
	"go/constant"
	"go/token"
	"go/types"
	"math"
	"os"
	"sort"
	"strings"
	"sync"

	"golang.org/x/tools/go/ssa"
)

// ---------- control-flow sentinels ----------

// GoPanic is a panic of the interpreted program.
type GoPanic struct {
	val    Value
	reason string
	pos    string
}

// PathEnd aborts the current path (not catchable by the interpreted program).
type PathEnd struct {
	kind string // "infeasible", "unsupported", "unwind", "steps", "deadlock", "done", "killed"
	msg  string
}

type deferred struct {
	fn   Value // *Closure or *ssa.Function-derived closure or builtin
	args []Value
	call *ssa.CallCommon
	recv Value // for invoke mode
}

type Frame struct {
	fn        *ssa.Function
	locals    map[ssa.Value]Value
	env       []Value
	defers    []*deferred
	panicking *GoPanic
	visits    map[*ssa.BasicBlock]int
	caller    *Frame
	unwind    int
}

type symVar struct {
	Name  string
	Kind  string // int, uint, bool, float64, string, choice
	Terms []*Term
	Width int
	Len   int
}

type Violation struct {
	Label string                 `json:"label"`
	Kind  string                 `json:"kind"` // assert, panic, deadlock
	Model map[string]interface{} `json:"model"`
	Trace []int                  `json:"trace"`
	Pos   string                 `json:"pos"`
	Msg   string                 `json:"msg"`
}

type PathResult struct {
	Trace       []int
	End         string
	EndMsg      string
	Asserts     map[string]int // label -> discharged count on this path
	Concrete    map[string]int // label -> trivially true count
	Covers      map[string]bool
	CoverModels map[string]map[string]interface{}
	Violations  []*Violation
	Unknown     []string
	NewPrefixes [][]int
	NewModels   []Model
	Steps       int
	Notes       []string
}

type Interp struct {
	prog    *ssa.Program
	cfg     *Config
	tb      *TermBuilder
	solver  *Solver
	pc      []*Term
	prefix  []int
	dpos    int
	trace   []int
	res     *PathResult
	globals map[*ssa.Global]*Cell
	extra   map[*Cell]interface{}
	symvars []*symVar
	symBy   map[string]*symVar
	cellID  int
	objID   int
	steps   int
	depth   int
	// goroutines
	gs         []*GoR
	cur        *GoR
	preempts   int
	maxPreempt int
	// environment
	nowCount        int
	uuidN           int
	wantCoverModels bool
	initDone        map[*ssa.Package]bool
	inInit          bool
	unwindDefault   int
	opt             *PathOpts
	freshPick       bool
	tag             string
	syncClocks      map[interface{}]*vclock
	raceMetas       map[interface{}]*raceMeta
	raceSeen        map[string]bool
	sleep           map[*GoR]bool
	enumQueries     int
	curModel        Model
	pcSet           map[int]bool
	conc            *concState
	nameCount       map[string]int
	ctxCanceled     Value
	bgCtx           *ctxObj
	freeWakes       int
	lastNow         *Term
	fnSeen          map[string]bool
}

func (ip *Interp) unsupported(msg string) {
	panic(&PathEnd{kind: "unsupported", msg: msg})
}

func (ip *Interp) goPanic(reason string) {
	pos := ""
	if ip.cur != nil && ip.cur.curInstr != nil {
		pos = ip.prog.Fset.Position(ip.cur.curInstr.Pos()).String()
		if ip.cur.curFn != nil {
			pos = ip.cur.curFn.String() + " " + pos
		}
	}
	panic(&GoPanic{val: Iface{t: types.Typ[types.String], v: &Str{s: reason}}, reason: reason, pos: pos})
}

// ---------- path condition & decisions ----------

// sliceFor returns the path-condition conjuncts that (transitively) share variables with extra.
// Because the rest of the path condition is satisfied by the path's current model and shares no
// variable with the slice, pc ∧ extra is satisfiable iff slice ∧ extra is.
func (ip *Interp) sliceFor(extra *Term) ([]*Term, map[int]*Term) {
	vars := map[int]*Term{}
	for _, v := range ip.tb.VarsOf(extra) {
		vars[v.id] = v
	}
	used := make([]bool, len(ip.pc))
	var out []*Term
	changed := true
	for changed {
		changed = false
		for i, c := range ip.pc {
			if used[i] {
				continue
			}
			cv := ip.tb.VarsOf(c)
			hit := false
			for _, v := range cv {
				if vars[v.id] != nil {
					hit = true
					break
				}
			}
			if hit {
				used[i] = true
				out = append(out, c)
				for _, v := range cv {
					if vars[v.id] == nil {
						vars[v.id] = v
						changed = true
					}
				}
			}
		}
	}
	return out, vars
}

// enumerate decides slice ∧ extra by exhaustive evaluation when every variable has a small known domain.
// It is used for branch-feasibility pruning only; assertion verdicts always go to the SMT solver.
func (ip *Interp) enumerate(cons []*Term, vars map[int]*Term) (string, Model, bool) {
	type dv struct {
		v      *Term
		lo, hi int64
	}
	var ds []dv
	for _, v := range vars {
		d, ok := ip.tb.dom[v.name]
		if !ok || d[1] < d[0] {
			return "", nil, false
		}
		ds = append(ds, dv{v, d[0], d[1]})
	}
	if len(ds) > 24 {
		return "", nil, false
	}
	sort.Slice(ds, func(i, j int) bool { return ds[i].v.id < ds[j].v.id })
	pos := map[int]int{}
	for i, d := range ds {
		pos[d.v.id] = i
	}
	// a constraint is checked as soon as its last variable (in the order) is assigned
	at := make([][]*Term, len(ds)+1)
	for _, c := range cons {
		last := -1
		for _, v := range ip.tb.VarsOf(c) {
			if p := pos[v.id]; p > last {
				last = p
			}
		}
		at[last+1] = append(at[last+1], c)
	}
	m := Model{}
	budget := 300000
	bad := false
	check := func(cs []*Term) bool {
		for _, c := range cs {
			e := &evaluator{m: m, cache: map[int]mval{}, ok: true}
			v := e.eval(c)
			if !e.ok {
				bad = true
				return false
			}
			if v.bv == 0 {
				return false
			}
		}
		return true
	}
	if !check(at[0]) {
		if bad {
			return "", nil, false
		}
		return "unsat", nil, true
	}
	var rec func(k int) bool
	rec = func(k int) bool {
		if k == len(ds) {
			return true
		}
		d := ds[k]
		for x := d.lo; x <= d.hi; x++ {
			budget--
			if budget < 0 || bad {
				return false
			}
			m[d.v.name] = mval{bv: uint64(x) & mask(maxInt(d.v.sort.W, 1))}
			if check(at[k+1]) && rec(k+1) {
				return true
			}
		}
		delete(m, d.v.name)
		return false
	}
	found := rec(0)
	if bad || budget < 0 {
		return "", nil, false
	}
	if found {
		out := Model{}
		for k, v := range m {
			out[k] = v
		}
		return "sat", out, true
	}
	return "unsat", nil, true
}

func maxInt(a, b int) int {
	if a > b {
		return a
	}
	return b
}

// query checks pc ∧ extra (extra may be nil). verdict=true marks an assertion check, which is always
// decided by the SMT solver; feasibility queries may be decided by finite-domain enumeration.
// On sat a model of the WHOLE path condition (and extra) is returned.
func (ip *Interp) query(extra *Term, verdict ...bool) (string, Model) {
	isVerdict := len(verdict) > 0 && verdict[0]
	as := ip.pc
	var sliced bool
	if extra != nil && ip.curModel != nil && !ip.cfg.NoSlice {
		sl, vars := ip.sliceFor(extra)
		cons := append(append([]*Term{}, sl...), extra)
		if !isVerdict {
			if r, m, ok := ip.enumerate(cons, vars); ok {
				ip.enumQueries++
				if r == "sat" {
					return r, ip.mergeModel(m)
				}
				return r, nil
			}
		}
		as = cons
		sliced = true
	} else if extra != nil {
		as = append(append([]*Term{}, ip.pc...), extra)
	}
	ip.solver.Load(as)
	r := ip.solver.Check()
	if r != "sat" {
		return r, nil
	}
	var vars []*Term
	for _, v := range ip.tb.vars {
		if ip.solver.IsDefined(v) {
			vars = append(vars, v)
		}
	}
	raw, err := ip.solver.GetValues(vars)
	if err != nil {
		ip.res.Unknown = append(ip.res.Unknown, "model extraction: "+err.Error())
		return "unknown", nil
	}
	m := Model{}
	for _, v := range vars {
		txt, ok := raw[v.name]
		if !ok {
			continue
		}
		switch v.sort.K {
		case KBool:
			m[v.name] = boolVal(strings.TrimSpace(txt) == "true")
		case KBV:
			x, _ := parseBVLit(txt)
			m[v.name] = mval{bv: x}
		case KFP:
			f, _ := parseFPLit(txt)
			m[v.name] = mval{f: f}
		}
	}
	if sliced {
		return r, ip.mergeModel(m)
	}
	return r, m
}

// mergeModel overlays the values of a slice model on the path's current model.
func (ip *Interp) mergeModel(m Model) Model {
	out := Model{}
	for k, v := range ip.curModel {
		out[k] = v
	}
	for k, v := range m {
		out[k] = v
	}
	return out
}

func (ip *Interp) addPC(t *Term) {
	if t.isConst {
		if !t.Bool() {
			panic(&PathEnd{kind: "infeasible"})
		}
		return
	}
	if ip.pcSet == nil {
		ip.pcSet = map[int]bool{}
	}
	if ip.pcSet[t.id] {
		return
	}
	ip.pcSet[t.id] = true
	ip.pc = append(ip.pc, t)
}

func (ip *Interp) record(d int) {
	ip.trace = append(ip.trace, d)
}

func (ip *Interp) enqueueAlt(d int, m Model) {
	alt := append(append([]int{}, ip.trace...), d)
	ip.res.NewPrefixes = append(ip.res.NewPrefixes, alt)
	ip.res.NewModels = append(ip.res.NewModels, m)
}

// branch decides a (possibly symbolic) condition, forking the path when both sides are feasible.
// The path keeps a model of its path condition: the side that the model takes is feasible
// without a solver call; only the other side is queried.
func (ip *Interp) branch(c *Term) bool {
	if c.sort.K != KBool {
		panic("branch on non-bool")
	}
	if c.isConst {
		return c.Bool()
	}
	if ip.dpos < len(ip.prefix) {
		d := ip.prefix[ip.dpos]
		ip.dpos++
		ip.record(d)
		if d == 1 {
			ip.addPC(c)
		} else {
			ip.addPC(ip.tb.Not(c))
		}
		return d == 1
	}
	ip.dpos++
	nc := ip.tb.Not(c)
	if side, ok := ip.evalBool(c); ok {
		other := nc
		od := 0
		if !side {
			other = c
			od = 1
		}
		r, m := ip.query(other)
		if r == "unknown" {
			ip.res.Unknown = append(ip.res.Unknown, "branch feasibility")
		}
		if r != "unsat" {
			ip.enqueueAlt(od, m)
		}
		if side {
			ip.record(1)
			ip.addPC(c)
		} else {
			ip.record(0)
			ip.addPC(nc)
		}
		return side
	}
	rt, mt := ip.query(c)
	var rf string
	var mf Model
	if rt == "unsat" {
		rf = "sat"
	} else {
		rf, mf = ip.query(nc)
	}
	if rt == "unknown" || rf == "unknown" {
		ip.res.Unknown = append(ip.res.Unknown, "branch feasibility")
	}
	tOK := rt != "unsat"
	fOK := rf != "unsat"
	switch {
	case tOK && fOK:
		ip.enqueueAlt(0, mf)
		ip.record(1)
		ip.addPC(c)
		ip.curModel = mt
		return true
	case tOK:
		ip.record(1)
		ip.addPC(c)
		ip.curModel = mt
		return true
	case fOK:
		ip.record(0)
		ip.addPC(nc)
		ip.curModel = mf
		return false
	}
	panic(&PathEnd{kind: "infeasible"})
}

// choose makes an n-way concrete (non-solver) decision, e.g. a scheduler choice.
func (ip *Interp) choose(n int) int {
	if n <= 1 {
		return 0
	}
	if ip.dpos < len(ip.prefix) {
		d := ip.prefix[ip.dpos]
		ip.dpos++
		ip.record(d)
		return d
	}
	ip.dpos++
	for j := n - 1; j >= 1; j-- {
		ip.enqueueAlt(j, ip.curModel)
	}
	ip.record(0)
	return 0
}

// concretize forks over the possible values lo..hi of an integer term.
func (ip *Interp) concretize(t *Term, lo, hi int) int {
	if t.isConst {
		return int(sext(t.bv, t.sort.W))
	}
	for i := lo; i <= hi; i++ {
		if ip.branch(ip.tb.Eq(t, ip.tb.BVConst(uint64(int64(i)), t.sort.W))) {
			return i
		}
	}
	panic(&PathEnd{kind: "infeasible"})
}

func (ip *Interp) assume(c *Term) {
	if c.isConst {
		if !c.Bool() {
			panic(&PathEnd{kind: "infeasible"})
		}
		return
	}
	if ip.dpos < len(ip.prefix) {
		// decided earlier as feasible
		ip.dpos++
		ip.record(1)
		ip.addPC(c)
		return
	}
	ip.dpos++
	if v, ok := ip.evalBool(c); ok && v {
		ip.record(1)
		ip.addPC(c)
		return
	}
	r, m := ip.query(c)
	if r == "unsat" {
		panic(&PathEnd{kind: "infeasible"})
	}
	if r == "unknown" {
		ip.res.Unknown = append(ip.res.Unknown, "assume feasibility")
	}
	ip.curModel = m
	ip.record(1)
	ip.addPC(c)
}

func (ip *Interp) decodeModel(m Model) map[string]interface{} {
	out := map[string]interface{}{}
	if m == nil {
		return out
	}
	for _, sv := range ip.symvars {
		out[sv.Name] = decodeSymVar(sv, m)
	}
	return out
}

// violation records a counterexample; m must satisfy the path condition and the failing condition.
func (ip *Interp) violation(kind, label, msg string, m Model) {
	if kind != "assert" && ip.tag != "" {
		label += " " + ip.tag // scenario tag set by the harness: each scenario's counterexample gets its own native replay
	}
	v := &Violation{Label: label, Kind: kind, Msg: msg, Trace: append([]int{}, ip.trace...)}
	if ip.cur != nil && ip.cur.curInstr != nil {
		v.Pos = ip.prog.Fset.Position(ip.cur.curInstr.Pos()).String()
	}
	if m == nil {
		// no model at hand: ask for one of the path condition
		r, m2 := ip.query(nil)
		if r == "unsat" {
			return
		}
		if r == "unknown" {
			ip.res.Unknown = append(ip.res.Unknown, "model for violation "+label)
		}
		m = m2
	}
	v.Model = ip.decodeModel(m)
	ip.res.Violations = append(ip.res.Violations, v)
}

func (ip *Interp) assert(c *Term, label string) {
	if c.isConst {
		if c.Bool() {
			ip.res.Concrete[label]++
			return
		}
		ip.violation("assert", label, "assertion is false on this path", ip.curModel)
		panic(&PathEnd{kind: "done", msg: "assertion failed"})
	}
	if ip.dpos < len(ip.prefix) {
		// already checked in the run that produced this prefix
		ip.dpos++
		ip.record(1)
		ip.addPC(c)
		return
	}
	ip.dpos++
	nc := ip.tb.Not(c)
	if v, ok := ip.evalBool(c); ok && !v {
		// the path's own model already falsifies the assertion
		ip.violation("assert", label, "assertion can fail", ip.curModel)
		r, m := ip.query(c)
		if r == "unsat" {
			panic(&PathEnd{kind: "done", msg: "assertion always fails here"})
		}
		if r == "unknown" {
			ip.res.Unknown = append(ip.res.Unknown, "continuation after violated assert "+label)
		}
		ip.curModel = m
		ip.record(1)
		ip.addPC(c)
		return
	}
	r, m := ip.query(nc, true)
	switch r {
	case "unsat":
		ip.res.Asserts[label]++
		ip.record(1)
		ip.addPC(c)
	case "sat":
		ip.violation("assert", label, "assertion can fail", m)
		if ip.curModel == nil {
			r2, m2 := ip.query(c)
			if r2 == "unsat" {
				panic(&PathEnd{kind: "done", msg: "assertion always fails here"})
			}
			ip.curModel = m2
		}
		ip.record(1)
		ip.addPC(c)
	default:
		ip.res.Unknown = append(ip.res.Unknown, "assert "+label)
		ip.record(1)
		ip.addPC(c)
	}
}

func (ip *Interp) cover(label string) {
	if !ip.res.Covers[label] {
		ip.res.Covers[label] = true
		// the witness model is taken at the end of the path (it must satisfy later assumptions too)
	}
}

// ---------- frames ----------

func (ip *Interp) get(fr *Frame, v ssa.Value) Value {
	switch x := v.(type) {
	case *ssa.Const:
		return ip.constValue(x)
	case *ssa.Global:
		return Ptr{ip.globalCell(x)}
	case *ssa.Function:
		return &Closure{fn: x}
	case *ssa.Builtin:
		return &Closure{name: "builtin:" + x.Name()}
	case *ssa.FreeVar:
		for i, fv := range fr.fn.FreeVars {
			if fv == x {
				return fr.env[i]
			}
		}
		ip.unsupported("free var not found")
	}
	val, ok := fr.locals[v]
	if !ok {
		ip.unsupported(fmt.Sprintf("value %s (%T) not evaluated in %s", v.Name(), v, fr.fn))
	}
	return val
}

func (ip *Interp) constValue(c *ssa.Const) Value {
	t := c.Type()
	if c.Value == nil {
		if _, ok := under(t).(*types.TypeParam); ok {
			ip.unsupported("const of type param")
		}
		return ip.zero(t)
	}
	if w, _, ok := intWidth(t); ok {
		if i, exact := constant.Int64Val(constant.ToInt(c.Value)); exact {
			return ip.tb.BVConst(uint64(i), w)
		}
		u, _ := constant.Uint64Val(constant.ToInt(c.Value))
		return ip.tb.BVConst(u, w)
	}
	switch {
	case isBool(t):
		return ip.tb.BoolConst(constant.BoolVal(c.Value))
	case isFloat(t):
		f, _ := constant.Float64Val(c.Value)
		if isFloat32(t) {
			f = float64(float32(f))
		}
		return ip.tb.FPConst(f)
	case isString(t):
		return &Str{s: constant.StringVal(c.Value)}
	}
	ip.unsupported("constant of type " + t.String())
	return nil
}

func (ip *Interp) globalCell(g *ssa.Global) *Cell {
	if c, ok := ip.globals[g]; ok {
		return c
	}
	pt := g.Type().(*types.Pointer)
	c := ip.newCell(pt.Elem())
	ip.globals[g] = c
	if g.Pkg != nil && !ip.inInit {
		ip.ensureInit(g.Pkg)
		// audit: a global with an initialiser, read although its package's init is not run, holds its zero value here
		if path := g.Pkg.Pkg.Path(); !ip.cfg.initAllowed(path) && !ip.cfg.isStubPkg(path) && initialisedInInit(g) {
			ip.note("zero-valued global (package init not run): " + g.String())
		}
	}
	return c
}

var (
	initRefMu sync.Mutex
	initRefs  = map[*ssa.Package]map[*ssa.Global]bool{}
)

// initialisedInInit reports whether the package's synthetic init function refers to g (i.e. g has an initialiser).
func initialisedInInit(g *ssa.Global) bool {
	initRefMu.Lock()
	defer initRefMu.Unlock()
	m, ok := initRefs[g.Pkg]
	if !ok {
		m = map[*ssa.Global]bool{}
		if fn := g.Pkg.Func("init"); fn != nil {
			var ops []*ssa.Value
			for _, b := range fn.Blocks {
				for _, ins := range b.Instrs {
					ops = ins.Operands(ops[:0])
					for _, o := range ops {
						if o != nil {
							if gl, isG := (*o).(*ssa.Global); isG {
								m[gl] = true
							}
						}
					}
				}
			}
		}
		initRefs[g.Pkg] = m
	}
	return m[g]
}

const maxDepth = 400

func (ip *Interp) callFunction(fn *ssa.Function, args []Value, env []Value) Value {
	if h := ip.lookupIntrinsic(fn); h != nil {
		if r := h(ip, fn, args); r != Value(fallThrough) {
			return r
		}
	}
	if fn.Blocks == nil {
		ip.unsupported("call of function without body: " + fn.String())
	}
	if fn.Pkg != nil && !ip.inInit {
		ip.ensureInit(fn.Pkg)
	}
	if !ip.fnSeen[fn.String()] {
		ip.fnSeen[fn.String()] = true
	}
	if ip.cfg.Debug && strings.Contains(fn.String(), "internetarchive/Zeno") && !strings.Contains(fn.String(), "verifrt") {
		fmt.Fprintf(os.Stderr, "[debug] %s%s %s\n", strings.Repeat(" ", ip.depth%40), ip.cur.name, fn.String())
	}
	ip.depth++
	if ip.depth > maxDepth {
		panic(&PathEnd{kind: "unwind", msg: "call depth exceeded in " + fn.String()})
	}
	fr := &Frame{fn: fn, locals: make(map[ssa.Value]Value, 32), env: env, visits: map[*ssa.BasicBlock]int{}}
	for i, p := range fn.Params {
		if i < len(args) {
			fr.locals[p] = args[i]
		}
	}
	g := ip.cur
	savedFn, savedInstr := g.curFn, g.curInstr
	ret := ip.runFrame(fr)
	g.curFn, g.curInstr = savedFn, savedInstr
	ip.depth--
	return ret
}

func (ip *Interp) runFrame(fr *Frame) (ret Value) {
	defer func() {
		if r := recover(); r != nil {
			gp, ok := r.(*GoPanic)
			if !ok {
				panic(r)
			}
			fr.panicking = gp
			ip.runDefers(fr)
			if fr.panicking != nil {
				panic(fr.panicking)
			}
			// recovered
			if fr.fn.Recover != nil {
				ret = ip.execFrom(fr, fr.fn.Recover)
			} else {
				ret = ip.zeroResults(fr.fn)
			}
		}
	}()
	return ip.execFrom(fr, fr.fn.Blocks[0])
}

func (ip *Interp) zeroResults(fn *ssa.Function) Value {
	res := fn.Signature.Results()
	switch res.Len() {
	case 0:
		return nil
	case 1:
		return ip.zero(res.At(0).Type())
	}
	return ip.zero(res)
}

func (ip *Interp) runDefers(fr *Frame) {
	for len(fr.defers) > 0 {
		d := fr.defers[len(fr.defers)-1]
		fr.defers = fr.defers[:len(fr.defers)-1]
		g := ip.cur
		saved := g.recoverFrame
		g.recoverFrame = fr
		ip.invokeDeferred(d)
		g.recoverFrame = saved
	}
}

func (ip *Interp) invokeDeferred(d *deferred) {
	ip.callValue(d.fn, d.args, d.call)
}

// callValue calls a function value.
func (ip *Interp) callValue(f Value, args []Value, cc *ssa.CallCommon) Value {
	cl, ok := f.(*Closure)
	if !ok || cl == nil {
		ip.goPanic("call of nil function")
	}
	if cl.native != nil {
		return cl.native(ip, args)
	}
	if strings.HasPrefix(cl.name, "builtin:") {
		return ip.callBuiltin(cl.name[8:], args, cc)
	}
	return ip.callFunction(cl.fn, args, cl.env)
}

func (ip *Interp) execFrom(fr *Frame, b *ssa.BasicBlock) Value {
	var prev *ssa.BasicBlock
	g := ip.cur
	for {
		fr.visits[b]++
		if fr.visits[b] > ip.unwindBound() {
			panic(&PathEnd{kind: "unwind", msg: fmt.Sprintf("loop bound %d exceeded in %s block %d", ip.unwindBound(), fr.fn, b.Index)})
		}
		// phis first (parallel assignment)
		nphi := 0
		for _, ins := range b.Instrs {
			if _, ok := ins.(*ssa.Phi); ok {
				nphi++
			} else {
				break
			}
		}
		if nphi > 0 {
			idx := -1
			for i, p := range b.Preds {
				if p == prev {
					idx = i
					break
				}
			}
			if idx < 0 {
				ip.unsupported("phi without matching predecessor")
			}
			vals := make([]Value, nphi)
			for i := 0; i < nphi; i++ {
				vals[i] = ip.get(fr, b.Instrs[i].(*ssa.Phi).Edges[idx])
			}
			for i := 0; i < nphi; i++ {
				fr.locals[b.Instrs[i].(*ssa.Phi)] = vals[i]
			}
		}
		var next *ssa.BasicBlock
		for _, ins := range b.Instrs[nphi:] {
			ip.steps++
			if ip.steps > ip.cfg.MaxSteps {
				panic(&PathEnd{kind: "steps", msg: "step budget exceeded"})
			}
			g.curFn, g.curInstr = fr.fn, ins
			switch x := ins.(type) {
			case *ssa.Jump:
				next = b.Succs[0]
			case *ssa.If:
				c := ip.get(fr, x.Cond).(*Term)
				if ip.branch(c) {
					next = b.Succs[0]
				} else {
					next = b.Succs[1]
				}
			case *ssa.Return:
				switch len(x.Results) {
				case 0:
					return nil
				case 1:
					return ip.get(fr, x.Results[0])
				}
				tp := make(Tuple, len(x.Results))
				for i, r := range x.Results {
					tp[i] = ip.get(fr, r)
				}
				return tp
			case *ssa.Panic:
				v := ip.get(fr, x.X)
				pos := fr.fn.String() + " " + ip.prog.Fset.Position(x.Pos()).String()
				panic(&GoPanic{val: v, reason: "explicit panic: " + ip.describe(v), pos: pos})
			case *ssa.RunDefers:
				ip.runDefers(fr)
			default:
				ip.exec(fr, ins)
			}
			if next != nil {
				break
			}
		}
		if next == nil {
			ip.unsupported("block without terminator")
		}
		prev = b
		b = next
	}
}

func (ip *Interp) unwindBound() int {
	if ip.cur != nil && ip.cur.unwind > 0 {
		return ip.cur.unwind
	}
	return ip.cfg.Unwind
}

// ---------- straight-line instructions ----------

func (ip *Interp) exec(fr *Frame, ins ssa.Instruction) {
	tb := ip.tb
	switch x := ins.(type) {
	case *ssa.DebugRef:
	case *ssa.Alloc:
		fr.locals[x] = Ptr{ip.newCell(x.Type().(*types.Pointer).Elem())}
	case *ssa.UnOp:
		fr.locals[x] = ip.unop(fr, x)
	case *ssa.BinOp:
		fr.locals[x] = ip.binop(x.Op, ip.get(fr, x.X), ip.get(fr, x.Y), x.X.Type(), x.Y.Type())
	case *ssa.Store:
		p := ip.get(fr, x.Addr).(Ptr)
		ip.cellWrite(p.c)
		ip.store(p.c, ip.get(fr, x.Val))
	case *ssa.FieldAddr:
		p := ip.get(fr, x.X).(Ptr)
		if p.c == nil {
			ip.goPanic("nil pointer dereference (field address)")
		}
		fr.locals[x] = Ptr{p.c.elems[x.Field]}
	case *ssa.Field:
		a := ip.get(fr, x.X).(Agg)
		fr.locals[x] = a.elems[x.Field]
	case *ssa.IndexAddr:
		fr.locals[x] = ip.indexAddr(fr, x)
	case *ssa.Index:
		switch a := ip.get(fr, x.X).(type) {
		case Agg:
			i := ip.indexCheck(ip.get(fr, x.Index).(*Term), len(a.elems))
			fr.locals[x] = a.elems[i]
		case *Str:
			i := ip.indexCheck(ip.get(fr, x.Index).(*Term), a.Len())
			if a.sym {
				fr.locals[x] = a.b[i]
			} else {
				fr.locals[x] = ip.tb.BVConst(uint64(a.s[i]), 8)
			}
		default:
			ip.unsupported(fmt.Sprintf("Index on %T", a))
		}
	case *ssa.Lookup:
		fr.locals[x] = ip.lookup(fr, x)
	case *ssa.Slice:
		fr.locals[x] = ip.sliceOp(fr, x)
	case *ssa.MakeSlice:
		n := ip.concretize(ip.get(fr, x.Len).(*Term), 0, ip.cfg.MaxMakeSlice)
		c := ip.concretize(ip.get(fr, x.Cap).(*Term), 0, 1<<20)
		if n < 0 || c < n {
			ip.goPanic("makeslice: len out of range")
		}
		et := under(x.Type()).(*types.Slice).Elem()
		if c > 4096 {
			c = n // capacity hints do not matter semantically beyond aliasing of appends
		}
		fr.locals[x] = Slice{arr: ip.newArrayCell(et, c), off: 0, len: n, cap: c}
	case *ssa.MakeMap:
		mt := under(x.Type()).(*types.Map)
		ip.objID++
		fr.locals[x] = &MapObj{keyT: mt.Key(), valT: mt.Elem(), id: ip.objID}
	case *ssa.MakeChan:
		n := ip.concretize(ip.get(fr, x.Size).(*Term), 0, 1<<16)
		ip.objID++
		fr.locals[x] = &ChanObj{id: ip.objID, cap: n, elemT: under(x.Type()).(*types.Chan).Elem()}
	case *ssa.MakeClosure:
		env := make([]Value, len(x.Bindings))
		for i, bnd := range x.Bindings {
			env[i] = ip.get(fr, bnd)
		}
		fr.locals[x] = &Closure{fn: x.Fn.(*ssa.Function), env: env}
	case *ssa.MakeInterface:
		fr.locals[x] = Iface{t: x.X.Type(), v: ip.get(fr, x.X)}
	case *ssa.ChangeInterface:
		fr.locals[x] = ip.get(fr, x.X)
	case *ssa.ChangeType:
		fr.locals[x] = ip.get(fr, x.X)
	case *ssa.Convert:
		fr.locals[x] = ip.convert(ip.get(fr, x.X), x.X.Type(), x.Type())
	case *ssa.TypeAssert:
		fr.locals[x] = ip.typeAssert(fr, x)
	case *ssa.Extract:
		fr.locals[x] = ip.get(fr, x.Tuple).(Tuple)[x.Index]
	case *ssa.MapUpdate:
		m := ip.get(fr, x.Map).(*MapObj)
		if m == nil {
			ip.goPanic("assignment to entry in nil map")
		}
		ip.accessWrite(m, "a map")
		ip.mapSet(m, ip.get(fr, x.Key), ip.get(fr, x.Value))
	case *ssa.Range:
		fr.locals[x] = ip.makeRange(ip.get(fr, x.X))
	case *ssa.Next:
		fr.locals[x] = ip.rangeNext(ip.get(fr, x.Iter).(*rangeIter), x)
	case *ssa.Call:
		fr.locals[x] = ip.doCall(fr, &x.Call)
	case *ssa.Defer:
		fr.defers = append(fr.defers, ip.prepareCall(fr, &x.Call))
	case *ssa.Go:
		d := ip.prepareCall(fr, &x.Call)
		ip.spawn(d)
	case *ssa.Send:
		ch := ip.get(fr, x.Chan).(*ChanObj)
		ip.chanSend(ch, ip.get(fr, x.X))
	case *ssa.Select:
		fr.locals[x] = ip.selectOp(fr, x)
	case *ssa.SliceToArrayPointer:
		s := ip.get(fr, x.X).(Slice)
		n := int(under(x.Type().(*types.Pointer).Elem()).(*types.Array).Len())
		if s.len < n {
			ip.goPanic("slice to array pointer: length too short")
		}
		if s.off != 0 || s.arr == nil || len(s.arr.elems) != n {
			ip.unsupported("SliceToArrayPointer with offset")
		}
		fr.locals[x] = Ptr{s.arr}
	default:
		ip.unsupported(fmt.Sprintf("instruction %T", ins))
	}
	_ = tb
}

func (ip *Interp) unop(fr *Frame, x *ssa.UnOp) Value {
	v := ip.get(fr, x.X)
	switch x.Op {
	case token.MUL: // load
		p := v.(Ptr)
		ip.cellRead(p.c)
		return ip.load(p.c)
	case token.NOT:
		return ip.tb.Not(v.(*Term))
	case token.SUB:
		t := v.(*Term)
		if t.sort.K == KFP {
			return ip.tb.FPNeg(t)
		}
		return ip.tb.BVNeg(t)
	case token.XOR:
		return ip.tb.BVNot(v.(*Term))
	case token.ARROW:
		ch := v.(*ChanObj)
		val, ok := ip.chanRecv(ch)
		if x.CommaOk {
			return Tuple{val, ip.tb.BoolConst(ok)}
		}
		return val
	}
	ip.unsupported("unop " + x.Op.String())
	return nil
}

// indexCheck concretises an index and panics (in the interpreted program) when out of range.
func (ip *Interp) indexCheck(i *Term, n int) int {
	if i.isConst {
		k := sext(i.bv, i.sort.W)
		if k < 0 || k >= int64(n) {
			ip.goPanic(fmt.Sprintf("index out of range [%d] with length %d", k, n))
		}
		return int(k)
	}
	in := ip.tb.BVCmp("bvult", i, ip.tb.BVConst(uint64(n), i.sort.W))
	if !ip.branch(in) {
		ip.goPanic(fmt.Sprintf("index out of range [symbolic] with length %d", n))
	}
	return ip.concretize(i, 0, n-1)
}

func (ip *Interp) indexAddr(fr *Frame, x *ssa.IndexAddr) Value {
	base := ip.get(fr, x.X)
	idx := ip.get(fr, x.Index).(*Term)
	switch b := base.(type) {
	case Slice:
		i := ip.indexCheck(idx, b.len)
		return Ptr{b.arr.elems[b.off+i]}
	case Ptr:
		if b.c == nil {
			ip.goPanic("nil pointer dereference (index address)")
		}
		i := ip.indexCheck(idx, len(b.c.elems))
		return Ptr{b.c.elems[i]}
	}
	ip.unsupported(fmt.Sprintf("IndexAddr on %T", base))
	return nil
}

func (ip *Interp) lookup(fr *Frame, x *ssa.Lookup) Value {
	base := ip.get(fr, x.X)
	switch b := base.(type) {
	case *Str:
		i := ip.indexCheck(ip.get(fr, x.Index).(*Term), b.Len())
		if b.sym {
			return b.b[i]
		}
		return ip.tb.BVConst(uint64(b.s[i]), 8)
	case *MapObj:
		if b != nil {
			ip.accessRead(b, "a map")
		}
		key := ip.get(fr, x.Index)
		var valT types.Type
		if b != nil {
			valT = b.valT
		} else {
			valT = under(x.X.Type()).(*types.Map).Elem()
		}
		v, ok := ip.mapGet(b, key)
		if !ok {
			v = ip.zero(valT)
		}
		if x.CommaOk {
			return Tuple{v, ip.tb.BoolConst(ok)}
		}
		return v
	}
	ip.unsupported(fmt.Sprintf("Lookup on %T", base))
	return nil
}

func (ip *Interp) sliceOp(fr *Frame, x *ssa.Slice) Value {
	base := ip.get(fr, x.X)
	optInt := func(v ssa.Value, def int, max int) int {
		if v == nil {
			return def
		}
		t := ip.get(fr, v).(*Term)
		if t.isConst {
			return int(sext(t.bv, t.sort.W))
		}
		in := ip.tb.BVCmp("bvule", t, ip.tb.BVConst(uint64(max), t.sort.W))
		if !ip.branch(in) {
			ip.goPanic("slice bounds out of range [symbolic]")
		}
		return ip.concretize(t, 0, max)
	}
	switch b := base.(type) {
	case *Str:
		n := b.Len()
		lo := optInt(x.Low, 0, n)
		hi := optInt(x.High, n, n)
		if lo < 0 || hi > n || lo > hi {
			ip.goPanic(fmt.Sprintf("slice bounds out of range [%d:%d] with length %d", lo, hi, n))
		}
		if b.sym {
			return ip.mkStr(b.b[lo:hi])
		}
		return &Str{s: b.s[lo:hi]}
	case Slice:
		lo := optInt(x.Low, 0, b.cap)
		hi := optInt(x.High, b.len, b.cap)
		mx := optInt(x.Max, b.cap, b.cap)
		if lo < 0 || hi > b.cap || lo > hi || mx > b.cap || hi > mx {
			ip.goPanic(fmt.Sprintf("slice bounds out of range [%d:%d:%d] with capacity %d", lo, hi, mx, b.cap))
		}
		if b.arr == nil {
			return Slice{}
		}
		return Slice{arr: b.arr, off: b.off + lo, len: hi - lo, cap: mx - lo}
	case Ptr: // *array
		if b.c == nil {
			ip.goPanic("nil pointer dereference (slice of nil array pointer)")
		}
		n := len(b.c.elems)
		lo := optInt(x.Low, 0, n)
		hi := optInt(x.High, n, n)
		mx := optInt(x.Max, n, n)
		if lo < 0 || hi > n || lo > hi || mx > n || hi > mx {
			ip.goPanic("slice bounds out of range")
		}
		return Slice{arr: b.c, off: lo, len: hi - lo, cap: mx - lo}
	}
	ip.unsupported(fmt.Sprintf("Slice on %T", base))
	return nil
}

func (ip *Interp) typeAssert(fr *Frame, x *ssa.TypeAssert) Value {
	iv := ip.get(fr, x.X).(Iface)
	ok := false
	var res Value
	if it, isI := under(x.AssertedType).(*types.Interface); isI {
		if iv.t != nil && ip.implements(iv.t, it) {
			ok = true
			res = iv
		} else {
			res = Iface{}
		}
	} else {
		if iv.t != nil && types.Identical(iv.t, x.AssertedType) {
			ok = true
			res = iv.v
		} else {
			res = ip.zero(x.AssertedType)
		}
	}
	if x.CommaOk {
		return Tuple{res, ip.tb.BoolConst(ok)}
	}
	if !ok {
		dyn := "nil"
		if iv.t != nil {
			dyn = iv.t.String()
		}
		ip.goPanic(fmt.Sprintf("interface conversion: interface is %s, not %s", dyn, x.AssertedType))
	}
	return res
}

func (ip *Interp) implements(t types.Type, it *types.Interface) bool {
	if _, ok := t.(*opaqueType); ok {
		return true
	}
	return types.Implements(t, it)
}

// opaqueType marks interface values produced by stubs.
type opaqueType struct{ name string }

func (o *opaqueType) Underlying() types.Type { return o }
func (o *opaqueType) String() string         { return "opaque:" + o.name }

// ---------- binary operators ----------

func (ip *Interp) binop(op token.Token, xv, yv Value, xt, yt types.Type) Value {
	tb := ip.tb
	switch op {
	case token.EQL:
		return ip.valuesEqual(xv, yv)
	case token.NEQ:
		return tb.Not(ip.valuesEqual(xv, yv))
	}
	if xs, ok := xv.(*Str); ok {
		ys := yv.(*Str)
		switch op {
		case token.ADD:
			if !xs.sym && !ys.sym {
				return &Str{s: xs.s + ys.s}
			}
			return ip.mkStr(append(append([]*Term{}, ip.strBytes(xs)...), ip.strBytes(ys)...))
		case token.LSS:
			return ip.strLess(xs, ys)
		case token.GTR:
			return ip.strLess(ys, xs)
		case token.LEQ:
			return tb.Not(ip.strLess(ys, xs))
		case token.GEQ:
			return tb.Not(ip.strLess(xs, ys))
		}
		ip.unsupported("string binop " + op.String())
	}
	x, ok1 := xv.(*Term)
	y, ok2 := yv.(*Term)
	if !ok1 || !ok2 {
		ip.unsupported(fmt.Sprintf("binop %s on %T,%T", op, xv, yv))
	}
	switch x.sort.K {
	case KBool:
		switch op {
		case token.LAND, token.AND:
			return tb.And(x, y)
		case token.LOR, token.OR:
			return tb.Or(x, y)
		}
	case KFP:
		switch op {
		case token.ADD:
			return tb.FPBin("fp.add", x, y)
		case token.SUB:
			return tb.FPBin("fp.sub", x, y)
		case token.MUL:
			return tb.FPBin("fp.mul", x, y)
		case token.QUO:
			return tb.FPBin("fp.div", x, y)
		case token.LSS:
			return tb.FPCmp("fp.lt", x, y)
		case token.LEQ:
			return tb.FPCmp("fp.leq", x, y)
		case token.GTR:
			return tb.FPCmp("fp.gt", x, y)
		case token.GEQ:
			return tb.FPCmp("fp.geq", x, y)
		}
	case KBV:
		_, signed, _ := intWidth(xt)
		w := x.sort.W
		switch op {
		case token.ADD:
			return tb.BVBin("bvadd", x, y)
		case token.SUB:
			return tb.BVBin("bvsub", x, y)
		case token.MUL:
			return tb.BVBin("bvmul", x, y)
		case token.AND:
			return tb.BVBin("bvand", x, y)
		case token.OR:
			return tb.BVBin("bvor", x, y)
		case token.XOR:
			return tb.BVBin("bvxor", x, y)
		case token.AND_NOT:
			return tb.BVBin("bvand", x, tb.BVNot(y))
		case token.QUO, token.REM:
			if !ip.branch(tb.Not(tb.Eq(y, tb.BVConst(0, w)))) {
				ip.goPanic("integer divide by zero")
			}
			if signed {
				if op == token.QUO {
					return tb.BVBin("bvsdiv", x, y)
				}
				return tb.BVBin("bvsrem", x, y)
			}
			if op == token.QUO {
				return tb.BVBin("bvudiv", x, y)
			}
			return tb.BVBin("bvurem", x, y)
		case token.SHL, token.SHR:
			_, ysigned, _ := intWidth(yt)
			if ysigned {
				if ip.branch(tb.BVCmp("bvslt", y, tb.BVConst(0, y.sort.W))) {
					ip.goPanic("negative shift amount")
				}
			}
			var cnt *Term
			var big *Term // count >= w
			if y.sort.W > w {
				big = tb.BVCmp("bvuge", y, tb.BVConst(uint64(w), y.sort.W))
				cnt = tb.Extract(w-1, 0, y)
			} else {
				cnt = tb.ZeroExt(y, w)
				big = tb.BoolConst(false)
			}
			var r *Term
			if op == token.SHL {
				r = tb.Ite(big, tb.BVConst(0, w), tb.BVBin("bvshl", x, cnt))
			} else if signed {
				fill := tb.BVBin("bvashr", x, tb.BVConst(uint64(w-1), w))
				r = tb.Ite(big, fill, tb.BVBin("bvashr", x, cnt))
			} else {
				r = tb.Ite(big, tb.BVConst(0, w), tb.BVBin("bvlshr", x, cnt))
			}
			return r
		case token.LSS, token.LEQ, token.GTR, token.GEQ:
			var name string
			pre := "bvu"
			if signed {
				pre = "bvs"
			}
			switch op {
			case token.LSS:
				name = pre + "lt"
			case token.LEQ:
				name = pre + "le"
			case token.GTR:
				name = pre + "gt"
			case token.GEQ:
				name = pre + "ge"
			}
			return tb.BVCmp(name, x, y)
		}
	}
	ip.unsupported(fmt.Sprintf("binop %s on sort %v", op, x.sort))
	return nil
}

func (ip *Interp) valuesEqual(a, b Value) *Term {
	tb := ip.tb
	switch x := a.(type) {
	case nil:
		return tb.BoolConst(isNilValue(b))
	case *Term:
		y, ok := b.(*Term)
		if !ok {
			ip.unsupported("== between term and non-term")
		}
		return tb.Eq(x, y)
	case *Str:
		return ip.strEq(x, b.(*Str))
	case Ptr:
		if b == nil {
			return tb.BoolConst(x.c == nil)
		}
		return tb.BoolConst(x.c == b.(Ptr).c)
	case *MapObj:
		y, _ := b.(*MapObj)
		return tb.BoolConst(x == y)
	case *ChanObj:
		y, _ := b.(*ChanObj)
		return tb.BoolConst(x == y)
	case *Closure:
		y, _ := b.(*Closure)
		if x != nil && y != nil {
			ip.unsupported("comparison of two non-nil funcs")
		}
		return tb.BoolConst(x == nil && y == nil)
	case Slice:
		y, _ := b.(Slice)
		if x.arr != nil && y.arr != nil {
			ip.unsupported("comparison of two non-nil slices")
		}
		return tb.BoolConst(x.arr == nil && y.arr == nil)
	case Agg:
		y := b.(Agg)
		r := tb.BoolConst(true)
		for i := range x.elems {
			r = tb.And(r, ip.valuesEqual(x.elems[i], y.elems[i]))
		}
		return r
	case Iface:
		y, ok := b.(Iface)
		if !ok {
			if b == nil {
				return tb.BoolConst(x.t == nil)
			}
			ip.unsupported("iface == non-iface")
		}
		if x.t == nil || y.t == nil {
			return tb.BoolConst(x.t == nil && y.t == nil)
		}
		_, o1 := x.t.(*opaqueType)
		_, o2 := y.t.(*opaqueType)
		if o1 || o2 {
			if o1 && o2 {
				return tb.BoolConst(x.v == y.v)
			}
			return tb.BoolConst(false)
		}
		if !types.Identical(x.t, y.t) {
			return tb.BoolConst(false)
		}
		return ip.valuesEqual(x.v, y.v)
	case *Opaque:
		return tb.BoolConst(a == b)
	}
	ip.unsupported(fmt.Sprintf("== on %T", a))
	return nil
}

func isNilValue(v Value) bool {
	switch x := v.(type) {
	case nil:
		return true
	case Ptr:
		return x.c == nil
	case Slice:
		return x.arr == nil
	case *MapObj:
		return x == nil
	case *ChanObj:
		return x == nil
	case *Closure:
		return x == nil
	case Iface:
		return x.t == nil
	}
	return false
}

// ---------- conversions ----------

// fpToInt reproduces go1.24 amd64 semantics of float64 -> integer conversion.
func (ip *Interp) fpToInt(x *Term, w int, signed bool) *Term {
	tb := ip.tb
	if x.isConst {
		f := x.f
		switch {
		case signed && w == 64:
			return tb.BVConst(uint64(int64(f)), 64)
		case signed && w == 32:
			return tb.BVConst(uint64(int32(f)), 32)
		case signed && w == 16:
			return tb.BVConst(uint64(int16(f)), 16)
		case signed && w == 8:
			return tb.BVConst(uint64(int8(f)), 8)
		case !signed && w == 64:
			return tb.BVConst(uint64(f), 64)
		case !signed && w == 32:
			return tb.BVConst(uint64(uint32(f)), 32)
		case !signed && w == 16:
			return tb.BVConst(uint64(uint16(f)), 16)
		case !signed && w == 8:
			return tb.BVConst(uint64(uint8(f)), 8)
		}
	}
	two63 := tb.FPConst(9223372036854775808.0)
	minInt := tb.BVConst(1<<63, 64)
	// cvttsd2sq: in range (-2^63 <= x < 2^63) truncate, else (incl. NaN) 0x8000000000000000
	cvt := func(v *Term) *Term {
		inRange := tb.And(tb.FPCmp("fp.geq", v, tb.FPNeg(two63)), tb.FPCmp("fp.lt", v, two63))
		return tb.Ite(inRange, tb.FPToSBV(v, 64), minInt)
	}
	if signed || w < 64 {
		// smaller widths: convert through int64 and truncate (what the compiler emits)
		r := cvt(x)
		if w < 64 {
			return tb.Extract(w-1, 0, r)
		}
		return r
	}
	// uint64: if x < 2^63 { cvt(x) } else { cvt(x - 2^63) ^ 0x8000... }
	lt := tb.FPCmp("fp.lt", x, two63)
	hi := tb.BVBin("bvxor", cvt(tb.FPBin("fp.sub", x, two63)), minInt)
	return tb.Ite(lt, cvt(x), hi)
}

func (ip *Interp) convert(v Value, from, to types.Type) Value {
	tb := ip.tb
	uf, ut := under(from), under(to)
	// string conversions
	if isString(ut) {
		switch x := v.(type) {
		case *Str:
			return x
		case Slice: // []byte / []rune -> string
			el := under(uf.(*types.Slice).Elem()).(*types.Basic)
			if el.Kind() != types.Uint8 {
				ip.unsupported("[]rune to string")
			}
			bs := make([]*Term, x.len)
			for i := 0; i < x.len; i++ {
				bs[i] = ip.load(x.arr.elems[x.off+i]).(*Term)
			}
			return ip.mkStr(bs)
		case *Term: // integer -> string (rune)
			if x.isConst {
				return &Str{s: string(rune(sext(x.bv, x.sort.W)))}
			}
			ip.unsupported("symbolic rune to string")
		}
	}
	if sl, ok := ut.(*types.Slice); ok {
		if s, isS := v.(*Str); isS {
			el := under(sl.Elem()).(*types.Basic)
			if el.Kind() == types.Uint8 {
				bs := ip.strBytes(s)
				arr := ip.newArrayCell(sl.Elem(), len(bs))
				for i, b := range bs {
					arr.elems[i].v = b
				}
				return Slice{arr: arr, off: 0, len: len(bs), cap: len(bs)}
			}
			if !s.sym {
				rs := []rune(s.s)
				arr := ip.newArrayCell(sl.Elem(), len(rs))
				for i, r := range rs {
					arr.elems[i].v = tb.BVConst(uint64(r), 32)
				}
				return Slice{arr: arr, off: 0, len: len(rs), cap: len(rs)}
			}
			ip.unsupported("symbolic string to []rune")
		}
		return v
	}
	t, isT := v.(*Term)
	if !isT {
		return v // pointer/unsafe/etc conversions keep representation
	}
	fw, fsigned, fint := intWidth(uf)
	tw, tsigned, tint := intWidth(ut)
	switch {
	case fint && tint:
		if tw <= fw {
			return tb.Extract(tw-1, 0, t)
		}
		if fsigned {
			return tb.SignExt(t, tw)
		}
		return tb.ZeroExt(t, tw)
	case fint && isFloat(ut):
		var r *Term
		if fsigned {
			r = tb.SIntToFP(t)
		} else {
			r = tb.UIntToFP(t)
		}
		if isFloat32(ut) {
			ip.unsupported("float32 conversion")
		}
		return r
	case isFloat(uf) && tint:
		return ip.fpToInt(t, tw, tsigned)
	case isFloat(uf) && isFloat(ut):
		if isFloat32(ut) != isFloat32(uf) {
			if t.isConst && isFloat32(ut) {
				return tb.FPConst(float64(float32(t.f)))
			}
			if isFloat32(ut) {
				ip.unsupported("float64->float32 conversion")
			}
		}
		return t
	case isBool(uf) && isBool(ut):
		return t
	}
	_ = math.Pi
	ip.unsupported(fmt.Sprintf("convert %s -> %s", from, to))
	return nil
}
