//go:build verif

package finisher

import (
	"context"

	"github.com/internetarchive/Zeno/internal/pkg/controler/pause"
	"github.com/internetarchive/Zeno/internal/pkg/stats"
	"github.com/internetarchive/Zeno/internal/verifrt"
	"github.com/internetarchive/Zeno/pkg/models"
)

// c14Stage starts n real finisher workers exactly as Start does, on channels owned by the harness.
func c14Stage(n int) *finisher {
	ctx, cancel := context.WithCancel(context.Background())
	f := &finisher{ctx: ctx, cancel: cancel, inputCh: make(chan *models.Item, 1),
		sourceFinishedCh: make(chan *models.Item, 2), sourceProducedCh: make(chan *models.Item, 2)}
	for i := 0; i < n; i++ {
		f.wg.Add(1)
		go f.worker("w")
	}
	return f
}

// VerifH_C14_finisher_workers: the real finisher workers under every sequence of <=2 pause/resume calls followed by a
// stage stop (cancel + wait, the body of Stop): nobody may stay blocked, paused or not.
func VerifH_C14_finisher_workers() {
	_ = stats.Init() // native replay needs the stats singleton; the symbolic run stubs the stats package
	n := 1 + verifrt.Choice("workers-1", 2)
	f := c14Stage(n)
	verifrt.Quiesce() // workers are subscribed and idle
	paused := false
	for op := 0; op < 2; op++ {
		switch verifrt.Choice("op", 3) {
		case 0:
			pause.Pause("verif")
			verifrt.Settle()
			paused = true
		case 1:
			pause.Resume()
			verifrt.Settle()
			paused = false
		case 2:
		}
	}
	if paused {
		verifrt.Cover("stop-while-paused")
		verifrt.Quiesce() // every worker has seen the pause and waits to acknowledge it
		f.inputCh <- models.NewItem("late", &models.URL{Raw: "http://x.example/late"}, "") // work arrives while the stage is paused
	} else {
		verifrt.Cover("stop-while-running")
	}
	// the body of finisher.Stop()
	f.cancel()
	f.wg.Wait()
	verifrt.Cover("stopped")
	if paused {
		verifrt.Assert(len(f.inputCh) == 1, "C14 a paused worker takes no work, also when its stage is stopped while paused")
	}
}
