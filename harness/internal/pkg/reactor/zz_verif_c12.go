//go:build verif

package reactor

import (
	"fmt"
	"sync"
	"sync/atomic"

	"github.com/internetarchive/Zeno/internal/verifrt"
	"github.com/internetarchive/Zeno/pkg/models"
)

func c12Seed(i int) *models.Item {
	return models.NewItem(fmt.Sprintf("seed-%d", i), &models.URL{Raw: fmt.Sprintf("http://h%d.example/", i)}, "")
}

func c12Tracked() int { return len(GetStateTable()) }

func c12IsTracked(id string) bool {
	for _, k := range GetStateTable() {
		if k == id {
			return true
		}
	}
	return false
}

// c12Accounting drives the real reactor with a client that inserts, reads the output, feeds back and finishes,
// in every order up to nOps operations, under every interleaving with the reactor's own goroutine.
func c12Accounting(nOps int, withFreeze bool) {
	verifrt.MapOrderAll(false) // iteration order of the state table is irrelevant to the counts checked here
	maxTokens := 1 + verifrt.Choice("maxTokens-1", 2)
	out := make(chan *models.Item, 8) // a consumer that keeps up
	err := Start(maxTokens, out)
	verifrt.Assert(err == nil, "C12 start")
	r := globalReactor
	var held []*models.Item // seeds the client currently holds (received from output)
	inserted := 0
	accepted := 0  // successful inserts
	delivered := 0 // items read from output
	sent := 0      // successful inserts + successful feedbacks
	frozen := false
	for op := 0; op < nOps; op++ {
		tokens, tracked := len(r.tokenPool), c12Tracked()
		verifrt.Assert(tokens == tracked && tokens <= maxTokens, "C12 tracked seeds == tokens in use <= max")
		nk := 6
		if withFreeze {
			nk = 7
		}
		switch verifrt.Choice("op", nk) {
		case 0: // insert a new seed
			it := c12Seed(inserted)
			inserted++
			var e error
			blocked := verifrt.WouldBlock(func() { e = ReceiveInsert(it) })
			if frozen {
				verifrt.Cover("insert-after-freeze")
				verifrt.Assert(!blocked && e != nil, "C12 frozen reactor accepts nothing (insert)")
				verifrt.Assert(len(r.tokenPool) == tokens && c12Tracked() == tracked, "C12 rejected insert has no side effect")
			} else if tokens == maxTokens {
				verifrt.Cover("insert-blocks-when-full")
				verifrt.Assert(blocked, "C12 no more seeds in flight than tokens")
				return // the client is stuck in the call; nothing more to drive
			} else {
				verifrt.Assert(!blocked && e == nil, "C12 insert with a free token is accepted")
				verifrt.Assert(len(r.tokenPool) == tokens+1 && c12IsTracked(it.GetID()), "C12 accepted seed takes exactly one token and is tracked")
				accepted++
				sent++
			}
		case 1: // read the output
			select {
			case it := <-out:
				held = append(held, it)
				delivered++
				verifrt.Cover("delivered")
			default:
			}
		case 2: // feed back a seed the client holds
			if len(held) == 0 {
				return
			}
			it := held[0]
			held = held[1:]
			var e error
			blocked := verifrt.WouldBlock(func() { e = ReceiveFeedback(it) })
			verifrt.Assert(!blocked, "C12 feedback of a tracked seed never blocks")
			if frozen {
				verifrt.Assert(e != nil, "C12 frozen reactor accepts nothing (feedback)")
			} else {
				verifrt.Assert(e == nil, "C12 feedback of a tracked seed is accepted")
				sent++
			}
			verifrt.Assert(len(r.tokenPool) == tokens && c12Tracked() == tracked, "C12 feedback costs no token")
			verifrt.Cover("feedback")
		case 3: // mark a held seed finished, then once more
			if len(held) == 0 {
				return
			}
			it := held[0]
			held = held[1:]
			e := MarkAsFinished(it)
			verifrt.Assert(e == nil, "C12 finishing a tracked seed succeeds")
			verifrt.Assert(len(r.tokenPool) == tokens-1 && !c12IsTracked(it.GetID()), "C12 finish gives back exactly one token")
			e = MarkAsFinished(it)
			verifrt.Assert(e != nil, "C12 repeated finish is rejected")
			verifrt.Assert(len(r.tokenPool) == tokens-1 && c12Tracked() == tracked-1, "C12 repeated finish has no side effect")
			verifrt.Cover("finish")
		case 4: // feedback for a seed the reactor does not know
			ghost := c12Seed(100 + op)
			var e error
			blocked := verifrt.WouldBlock(func() { e = ReceiveFeedback(ghost) })
			verifrt.Assert(!blocked && e != nil, "C12 feedback for an unknown seed is rejected")
			verifrt.Assert(len(r.tokenPool) == tokens, "C12 rejected feedback takes no token")
			verifrt.Assert(c12Tracked() == tracked && !c12IsTracked(ghost.GetID()), "C12 rejected feedback leaves the state table alone")
			verifrt.Cover("feedback-unknown")
		case 5: // finish for a seed the reactor does not know
			ghost := c12Seed(200 + op)
			e := MarkAsFinished(ghost)
			verifrt.Assert(e != nil, "C12 finish for an unknown seed is rejected")
			verifrt.Assert(len(r.tokenPool) == tokens && c12Tracked() == tracked, "C12 rejected finish has no side effect")
		case 6:
			if frozen {
				return
			}
			Freeze()
			frozen = true
		}
	}
	// everything accepted reaches the output while the consumer reads
	verifrt.Quiesce()
	for {
		select {
		case <-out:
			delivered++
			continue
		default:
		}
		break
	}
	// freezing only stops the reactor from accepting; what it accepted before still has to come out
	verifrt.Assert(delivered == sent, "C12 every accepted seed reaches the output")
	if frozen {
		verifrt.Cover("drained-after-freeze")
	}
	verifrt.Assert(len(r.tokenPool) == c12Tracked(), "C12 tracked == tokens at quiescence")
	_ = accepted
}

func VerifH_C12_accounting3() { c12Accounting(3, false) }
func VerifH_C12_accounting4() { c12Accounting(4, false) }
func VerifH_C12_freeze3()     { c12Accounting(3, true) }

// VerifH_C12_stop: Stop returns (no deadlock) whatever the reactor is doing, and afterwards nothing is accepted.
func VerifH_C12_stop() {
	verifrt.MapOrderAll(false)
	maxTokens := 1 + verifrt.Choice("maxTokens-1", 2)
	capOut := verifrt.Choice("outcap", 2) // 0: nobody reads the output
	out := make(chan *models.Item, capOut)
	_ = Start(maxTokens, out)
	n := verifrt.Choice("inserts", 3)
	for i := 0; i < n && i < maxTokens; i++ {
		_ = ReceiveInsert(c12Seed(i))
	}
	if verifrt.Choice("freeze-first", 2) == 1 {
		Freeze()
	}
	Stop() // a hang here is reported by the engine as a deadlock
	verifrt.Cover("stopped")
	verifrt.Assert(globalReactor == nil, "C12 stop clears the reactor")
	e := ReceiveInsert(c12Seed(9))
	verifrt.Assert(e != nil, "C12 stopped reactor accepts nothing")
}

// VerifH_C12_waiting_insert: an insert that waits for a token (pool full) is not in flight: it is not tracked while it
// waits, a freeze rejects it without leaving anything behind, and a finish lets it in.
func VerifH_C12_waiting_insert() {
	verifrt.MapOrderAll(false)
	maxTokens := 1 + verifrt.Choice("maxTokens-1", 2)
	out := make(chan *models.Item, 8)
	_ = Start(maxTokens, out)
	r := globalReactor
	for i := 0; i < maxTokens; i++ {
		verifrt.Assert(ReceiveInsert(c12Seed(i)) == nil, "C12 insert with a free token is accepted")
	}
	late := c12Seed(50)
	var e error
	var returned atomic.Bool
	verifrt.Go(func() { e = ReceiveInsert(late); returned.Store(true) })
	verifrt.Quiesce()
	verifrt.Assert(!returned.Load(), "C12 no more seeds in flight than tokens")
	verifrt.Assert(len(r.tokenPool) == maxTokens && c12Tracked() == maxTokens && !c12IsTracked(late.GetID()),
		"C12 a seed waiting for a token is not tracked (tracked seeds == tokens in use)")
	first := <-out
	if verifrt.Choice("then", 2) == 0 {
		Freeze()
		verifrt.Quiesce()
		verifrt.Cover("waiting-insert-frozen")
		verifrt.Assert(returned.Load() && e != nil, "C12 frozen reactor accepts nothing (waiting insert)")
		verifrt.Assert(len(r.tokenPool) == maxTokens && c12Tracked() == maxTokens && !c12IsTracked(late.GetID()),
			"C12 rejected insert has no side effect")
		verifrt.Assert(MarkAsFinished(late) != nil, "C12 finish for a rejected seed is rejected")
		verifrt.Assert(len(r.tokenPool) == maxTokens && c12Tracked() == maxTokens, "C12 rejected finish has no side effect")
		var e2 error
		b := verifrt.WouldBlock(func() { e2 = MarkAsFinished(first) })
		verifrt.Assert(!b && e2 == nil, "C12 finishing a tracked seed succeeds")
		verifrt.Assert(len(r.tokenPool) == maxTokens-1 && c12Tracked() == maxTokens-1, "C12 finish gives back exactly one token")
	} else {
		verifrt.Assert(MarkAsFinished(first) == nil, "C12 finishing a tracked seed succeeds")
		verifrt.Quiesce()
		verifrt.Cover("waiting-insert-admitted")
		verifrt.Assert(returned.Load() && e == nil, "C12 a waiting insert is accepted once a token is free")
		verifrt.Assert(len(r.tokenPool) == maxTokens && c12Tracked() == maxTokens && c12IsTracked(late.GetID()),
			"C12 accepted seed takes exactly one token and is tracked")
		found := false
		for {
			select {
			case it := <-out:
				if it == late {
					found = true
				}
				continue
			default:
			}
			break
		}
		verifrt.Assert(found, "C12 every accepted seed reaches the output")
	}
}

// VerifH_C12_concurrent_finish: two clients report the same seed finished at the same time (while another seed stays
// in flight): exactly one of them succeeds, one token comes back, and tracked seeds == tokens in use afterwards.
func VerifH_C12_concurrent_finish() {
	verifrt.MapOrderAll(false)
	out := make(chan *models.Item, 4)
	_ = Start(2, out)
	r := globalReactor
	keeper, s := c12Seed(0), c12Seed(1)
	verifrt.Assert(ReceiveInsert(keeper) == nil && ReceiveInsert(s) == nil, "C12 insert with a free token is accepted")
	<-out
	<-out // both seeds have been delivered: the reactor is idle
	var e1, e2 error
	var wg sync.WaitGroup
	start := make(chan struct{})
	wg.Add(2)
	verifrt.Go(func() { defer wg.Done(); <-start; e1 = MarkAsFinished(s) })
	verifrt.Go(func() { defer wg.Done(); <-start; e2 = MarkAsFinished(s) })
	close(start)
	wg.Wait() // (a finish that waits for a token that is not there shows as a deadlock)
	ok := 0
	if e1 == nil {
		ok++
	}
	if e2 == nil {
		ok++
	}
	verifrt.Cover("two-finishes")
	verifrt.Assert(ok == 1, "C12 repeated finish is rejected")
	verifrt.Assert(len(r.tokenPool) == 1 && c12Tracked() == 1 && c12IsTracked(keeper.GetID()), "C12 finish gives back exactly one token")
	Stop() // (leaves the package clean for the next iteration of the native stress replay)
}
