//go:build verif

package extractor

import (
	"net/http"

	"github.com/PuerkitoBio/goquery"
	"github.com/internetarchive/Zeno/internal/pkg/config"
	"golang.org/x/net/html"

	"github.com/internetarchive/Zeno/internal/verifrt"
	"github.com/internetarchive/Zeno/pkg/models"
)

// VerifH_C10_link_header: any Link header value (up to 7 bytes over the characters the parser looks at) is
// parsed without panic, and every <...> target that is not blank comes back.
func VerifH_C10_link_header() {
	v := verifrt.String("link", 7)
	c19Alpha(v, "<>;, =\"a")
	u := &models.URL{}
	u.SetResponse(&http.Response{Header: http.Header{"Link": []string{v}}})
	got := ExtractURLsFromHeader(u) // a panic or an unbounded loop here is reported by the engine
	verifrt.Cover("parsed")
	for _, g := range got {
		verifrt.Assert(g != nil && g.Raw != "", "C10 link header: no empty URL is produced")
	}
	if len(got) > 1 {
		verifrt.Cover("two-links")
	}
	if len(v) >= 3 && v[0] == '<' && v[1] == 'a' && v[2] == '>' && (len(v) == 3 || v[3] == ';') {
		noComma := true
		for i := 0; i+1 < len(v); i++ {
			if v[i] == ',' && v[i+1] == ' ' {
				noComma = false
			}
		}
		if noComma {
			verifrt.Cover("simple-link")
			verifrt.Assert(len(got) == 1 && got[0].Raw == "a", "C10 link header: <a>;... yields a")
		}
	}
}

// VerifH_C10_attr: attribute parsing never panics and splits at the first '='.
func VerifH_C10_attr() {
	s := verifrt.String("attr", 6)
	c19Alpha(s, "= \"ab")
	k, val := parseAttr(s)
	eq := -1
	for i := 0; i < len(s); i++ {
		if s[i] == '=' {
			eq = i
			break
		}
	}
	if eq == -1 {
		verifrt.Cover("no-equals")
		verifrt.Assert(k == "" && val == "", "C10 attribute without '=' yields nothing")
	} else {
		verifrt.Cover("key-value")
		verifrt.Assert(len(k) <= eq && len(val) <= len(s)-eq-1, "C10 attribute parts come from their side of '='")
	}
}

// VerifH_C10_json_shapes: findURLs and the JSON-in-JSON sniffing accept any value shape and any string.
func VerifH_C10_json_shapes() {
	s := verifrt.String("text", 6)
	c19Alpha(s, "{}[]\"a \n")
	_ = isLikelyJSON(s)
	links := make([]string, 0)
	var v interface{}
	switch verifrt.Choice("shape", 6) {
	case 0:
		v = nil
	case 1:
		v = 3.5
	case 2:
		v = true
	case 3:
		v = []interface{}{nil, 1.0, s, []interface{}{}}
	case 4:
		v = map[string]interface{}{"": nil, "k": s}
	default:
		v = s
	}
	findURLs(v, &links)
	verifrt.Cover("walked")
	for _, l := range links {
		verifrt.Assert(l != "", "C10 JSON: no empty link")
	}
}

// VerifH_C10_srcset: any srcset / data-srcset text a page can carry (up to 4 bytes over the characters the splitting
// code looks at) on img and source elements goes through HTMLAssets without a panic, and no asset is invented.
func VerifH_C10_srcset() {
	config.VerifSet(&config.Config{})
	v := verifrt.String("srcset", 4)
	c19Alpha(v, "a, \n")
	tag := []string{"img", "source"}[verifrt.Choice("tag", 2)]
	attr := []string{"srcset", "data-srcset"}[verifrt.Choice("attribute", 2)]
	u := &models.URL{Raw: "http://site.example/dir/page"}
	if err := u.Parse(); err != nil {
		panic(err)
	}
	item := models.NewItem("p", u, "")
	els := []c07El{{tag, [][2]string{{attr, v}}}}
	if verifrt.Symbolic() {
		root := &html.Node{Type: html.DocumentNode}
		h := c07Node("html", nil)
		root.AppendChild(h)
		b := c07Node("body", nil)
		h.AppendChild(b)
		b.AppendChild(c07Node(tag, els[0].attrs))
		u.SetDocument(goquery.NewDocumentFromNode(root))
	}
	u.SetBody(&c19Body{Reader: bytesReader(c07Render(els))})
	assets, err := HTMLAssets(item) // a panic or an unbounded loop here is reported by the engine
	verifrt.Cover("srcset-parsed")
	verifrt.Assert(err == nil, "C10 a page with any srcset text is still extracted")
	for _, a := range assets {
		if a != nil && len(a.Raw) > 0 {
			verifrt.Cover("srcset-candidate")
			verifrt.Assert(len(a.Raw) <= len(v), "C10 srcset: candidates come from the attribute text")
		}
	}
}
