//go:build verif

package extractor

import (
	"bytes"
	"net/url"

	"github.com/grafov/m3u8"
	"github.com/internetarchive/Zeno/internal/verifmodel"
	"github.com/internetarchive/Zeno/internal/verifrt"
	"github.com/internetarchive/Zeno/pkg/models"
)

// ---------- file-extension rule ----------

// refHasExt is written from the statement: the last path segment (fragment and query removed) contains a
// dot that is followed by at least one more character.
func refHasExt(s string) bool {
	end := len(s)
	for i := 0; i < len(s); i++ {
		if s[i] == '#' {
			end = i
			break
		}
	}
	for i := 0; i < end; i++ {
		if s[i] == '?' {
			end = i
			break
		}
	}
	start := 0
	for i := 0; i < end; i++ {
		if s[i] == '/' {
			start = i + 1
		}
	}
	last := -1
	for i := start; i < end; i++ {
		if s[i] == '.' {
			last = i
		}
	}
	return last != -1 && last != end-1
}

func c19Alpha(s string, alpha string) {
	for i := 0; i < len(s); i++ {
		var in []bool
		for j := 0; j < len(alpha); j++ {
			in = append(in, s[i] == alpha[j])
		}
		verifrt.Assume(verifrt.Any(in...))
	}
}

// VerifH_C19_extension: assets vs outlinks split for every URL text up to 6 bytes over {a . / ? #}.
func VerifH_C19_extension() {
	s := verifrt.String("url", 6)
	c19Alpha(s, "a./?#")
	got := hasFileExtension(s)
	if got {
		verifrt.Cover("has-extension")
	} else {
		verifrt.Cover("no-extension")
	}
	verifrt.Assert(got == refHasExt(s), "C19 extension rule: last path segment has a file extension")
}

// ---------- JSON value trees ----------

var c19Leaves = []string{
	"http://a.b/x.png",  // valid URL with extension -> asset
	"https://c.d/page",  // valid URL without extension -> outlink
	"not a url",         // plain text
	"/relative/x.png",   // no host: not an absolute URL
	`["http://e.f/y"]`,  // JSON embedded in a string
	`{"u":"http:\/\/g.h\/z"}`, // embedded JSON whose slashes are escaped (what PHP's json_encode emits)
}

type c19Counts struct{ png, page, embedded, escaped int }

// c19Value builds a JSON value whose shape and leaves are chosen symbolically and counts the URLs planted in it.
func c19Value(depth int, name string, cnt *c19Counts) interface{} {
	kinds := 3
	if depth == 0 {
		kinds = 1
	}
	switch verifrt.Choice("kind_"+name, kinds) {
	case 0:
		k := verifrt.Choice("leaf_"+name, len(c19Leaves))
		switch k {
		case 0:
			cnt.png++
		case 1:
			cnt.page++
		case 4:
			cnt.embedded++
		case 5:
			cnt.escaped++
		}
		return c19Leaves[k]
	case 1:
		n := verifrt.Choice("len_"+name, c19Width(depth))
		arr := make([]interface{}, 0, n)
		for i := 0; i < n; i++ {
			arr = append(arr, c19Value(depth-1, name+"a"+string(rune('0'+i)), cnt))
		}
		return arr
	default:
		n := verifrt.Choice("len_"+name, c19Width(depth))
		m := map[string]interface{}{}
		for i := 0; i < n; i++ {
			m["k"+string(rune('0'+i))] = c19Value(depth-1, name+"m"+string(rune('0'+i)), cnt)
		}
		return m
	}
}

// c19Width: containers hold 0-2 values; a container three levels above the leaves holds at most one (bounds the tree count).
func c19Width(depth int) int {
	if depth >= 3 {
		return 2
	}
	return 3
}

func c19JSON(depth int) {
	verifmodel.JSONEmbedded[`["http://e.f/y"]`] = []interface{}{"http://e.f/y"}
	verifmodel.JSONEmbedded[c19Leaves[5]] = map[string]interface{}{"u": "http://g.h/z"}
	var cnt c19Counts
	v := c19Value(depth, "r", &cnt)
	links := make([]string, 0)
	findURLs(v, &links)
	gotPng, gotPage, gotEmb, gotEsc := 0, 0, 0, 0
	for _, l := range links {
		switch l {
		case "http://a.b/x.png":
			gotPng++
		case "https://c.d/page":
			gotPage++
		case "http://e.f/y":
			gotEmb++
		case "http://g.h/z":
			gotEsc++
		default:
			verifrt.Assert(false, "C19 JSON: only planted absolute URLs are discovered")
		}
	}
	if cnt.embedded > 0 {
		verifrt.Cover("json-in-string")
	}
	if cnt.escaped > 0 {
		verifrt.Cover("json-in-string-escaped")
	}
	if cnt.png+cnt.page > 1 {
		verifrt.Cover("several-urls")
	}
	verifrt.Assert(gotPng == cnt.png && gotPage == cnt.page && gotEmb == cnt.embedded && gotEsc == cnt.escaped, "C19 JSON: every absolute URL at any depth is discovered exactly once")
	// the asset/outlink split
	for _, l := range links {
		verifrt.Assert(hasFileExtension(l) == (l == "http://a.b/x.png"), "C19 JSON: URLs with a file extension are assets, the others outlinks")
	}
}

func VerifH_C19_json_depth2() { c19JSON(2) }
func VerifH_C19_json_depth3() { c19JSON(3) }

// ---------- S3 listings ----------

func c19Contains(list []string, s string) bool {
	for _, x := range list {
		if x == s {
			return true
		}
	}
	return false
}

var c19Keys = []string{"a.txt", "dir/b.bin", "c"}

func c19Objects(name string) []S3Object {
	n := verifrt.Choice("objects_"+name, 3)
	var out []S3Object
	for i := 0; i < n; i++ {
		out = append(out, S3Object{Key: c19Keys[verifrt.Choice("key_"+name+string(rune('0'+i)), len(c19Keys))],
			Size: verifrt.Int64("size_" + name + string(rune('0'+i)))})
	}
	return out
}

func c19Req(raw string) (*url.URL, *url.URL) {
	req, err := url.Parse(raw)
	if err != nil {
		panic(err)
	}
	base, _ := url.Parse("https://" + req.Host)
	return req, base
}

// VerifH_C19_s3_legacy: marker-paginated page: every non-empty object is linked, a non-empty page links its successor.
func VerifH_C19_s3_legacy() {
	verifrt.MapOrderAll(false) // url.Values.Encode sorts the keys: the map iteration order cannot be observed
	req, base := c19Req("https://bucket.s3.example.com/?max-keys=2")
	res := S3ListBucketResult{Contents: c19Objects("p")}
	// everything else in the listing is server-controlled too
	res.IsTruncated = verifrt.Bool("truncated")
	if verifrt.Choice("has-token", 2) == 1 {
		res.NextContinuationToken = "tok1"
	}
	if verifrt.Choice("has-prefixes", 2) == 1 {
		res.CommonPrefixes = []CommonPrefix{{Prefix: []string{"dir/"}}, {}}
	}
	out := s3Legacy(req, base, res)
	for _, o := range res.Contents {
		if o.Size > 0 {
			verifrt.Cover("object-linked")
			verifrt.Assert(c19Contains(out, "https://bucket.s3.example.com/"+o.Key), "C19 S3 legacy: every object of non-zero size is queued")
		}
	}
	if len(res.Contents) > 0 {
		last := res.Contents[len(res.Contents)-1].Key
		q := url.Values{}
		q.Set("max-keys", "2")
		q.Set("marker", last)
		verifrt.Cover("next-page")
		verifrt.Assert(c19Contains(out, "https://bucket.s3.example.com/?"+q.Encode()), "C19 S3 legacy: a non-empty page links the next page by marker = last key")
	} else {
		verifrt.Assert(len(out) == 0, "C19 S3 legacy: the walk ends on an empty page")
	}
}

// VerifH_C19_s3_v2: list-type=2 page with common prefixes and/or objects and/or a continuation token.
func VerifH_C19_s3_v2() {
	verifrt.MapOrderAll(false) // url.Values.Encode sorts the keys: the map iteration order cannot be observed
	req, base := c19Req("https://bucket.s3.example.com/?list-type=2&delimiter=%2F")
	res := S3ListBucketResult{Contents: c19Objects("p")}
	np := verifrt.Choice("prefixes", 3)
	prefixes := []string{"dir/", "other/"}
	for i := 0; i < np; i++ {
		res.CommonPrefixes = append(res.CommonPrefixes, CommonPrefix{Prefix: []string{prefixes[i]}})
	}
	res.IsTruncated = verifrt.Bool("truncated")
	if verifrt.Choice("has-token", 2) == 1 {
		res.NextContinuationToken = "tok1"
	}
	out := s3V2(req, base, res)
	nonEmpty := false
	for _, o := range res.Contents {
		if o.Size > 0 {
			nonEmpty = true
			verifrt.Assert(c19Contains(out, "https://bucket.s3.example.com/"+o.Key), "C19 S3 v2: every object of non-zero size is queued (with or without common prefixes)")
		}
	}
	if nonEmpty && np > 0 {
		verifrt.Cover("objects-and-prefixes")
	}
	for i := 0; i < np; i++ {
		q := url.Values{}
		q.Set("list-type", "2")
		q.Set("delimiter", "/")
		q.Set("prefix", prefixes[i])
		verifrt.Cover("prefix-linked")
		verifrt.Assert(c19Contains(out, "https://bucket.s3.example.com/?"+q.Encode()), "C19 S3 v2: every common prefix is followed")
	}
	if res.IsTruncated && res.NextContinuationToken != "" {
		q := url.Values{}
		q.Set("list-type", "2")
		q.Set("delimiter", "/")
		q.Set("continuation-token", "tok1")
		verifrt.Cover("continuation")
		verifrt.Assert(c19Contains(out, "https://bucket.s3.example.com/?"+q.Encode()), "C19 S3 v2: a truncated page links its continuation")
	}
}

// ---------- M3U8 ----------

type c19Body struct {
	*bytes.Reader
	closed int
}

func (b *c19Body) Close() error     { b.closed++; return nil }
func (b *c19Body) FileName() string { return "" }
func (b *c19Body) Len() int         { return b.Reader.Len() }

func c19URLWithBody(text string) *models.URL {
	u := &models.URL{}
	u.SetBody(&c19Body{Reader: bytes.NewReader([]byte(text))})
	return u
}

// c19RefWalk is the reference from the statement: every non-empty segment, variant and alternative-rendition URI, in order.
func c19RefWalk(pl m3u8.Playlist, lt m3u8.ListType) []string {
	var out []string
	if lt == m3u8.MEDIA {
		for _, sg := range pl.(*m3u8.MediaPlaylist).Segments {
			if sg != nil && sg.URI != "" {
				out = append(out, sg.URI)
			}
		}
		return out
	}
	for _, v := range pl.(*m3u8.MasterPlaylist).Variants {
		if v == nil {
			continue
		}
		if v.URI != "" {
			out = append(out, v.URI)
		}
		for _, a := range v.Alternatives {
			if a != nil && a.URI != "" {
				out = append(out, a.URI)
			}
		}
	}
	return out
}

// VerifH_C19_m3u8 drives the real M3U8 extractor over arbitrary decoded playlists. In the symbolic run the decoder is
// modelled (it hands back the playlist built here, nil slots included); natively the same playlist is rendered as
// text, goes through the real decoder, and the reference walk runs over what the real decoder produced.
func VerifH_C19_m3u8() {
	uris := []string{"seg1.ts", "http://v.example/2.m3u8", "a/b.aac"}
	text := "#EXTM3U\n"
	var pl m3u8.Playlist
	var lt m3u8.ListType
	if verifrt.Choice("kind", 2) == 0 {
		mp := &m3u8.MediaPlaylist{}
		text += "#EXT-X-VERSION:3\n#EXT-X-TARGETDURATION:10\n"
		n := 1 + verifrt.Choice("segments-1", 3)
		for i := 0; i < n; i++ {
			k := verifrt.Choice("seg"+string(rune('0'+i)), 4)
			if k == 3 {
				mp.Segments = append(mp.Segments, nil) // unused ring-buffer slot
				continue
			}
			mp.Segments = append(mp.Segments, &m3u8.MediaSegment{URI: uris[k]})
			text += "#EXTINF:9.0,\n" + uris[k] + "\n"
		}
		text += "#EXT-X-ENDLIST\n"
		pl, lt = mp, m3u8.MEDIA
		verifrt.Cover("media")
	} else {
		ms := &m3u8.MasterPlaylist{}
		n := 1 + verifrt.Choice("variants-1", 2)
		for i := 0; i < n; i++ {
			k := verifrt.Choice("var"+string(rune('0'+i)), 4)
			if k == 3 && i > 0 {
				ms.Variants = append(ms.Variants, nil)
				continue
			}
			if k == 3 {
				k = 0
			}
			v := &m3u8.Variant{URI: uris[k]}
			na := verifrt.Choice("alts"+string(rune('0'+i)), 3)
			for j := 0; j < na; j++ {
				a := verifrt.Choice("alt"+string(rune('0'+i))+string(rune('0'+j)), 3)
				v.Alternatives = append(v.Alternatives, &m3u8.Alternative{URI: uris[a], GroupId: "g", Name: "n", Type: "AUDIO"})
				text += "#EXT-X-MEDIA:TYPE=AUDIO,GROUP-ID=\"g\",NAME=\"n\",URI=\"" + uris[a] + "\"\n"
				verifrt.Cover("alternative")
			}
			text += "#EXT-X-STREAM-INF:PROGRAM-ID=1,BANDWIDTH=1000,AUDIO=\"g\"\n" + uris[k] + "\n"
			ms.Variants = append(ms.Variants, v)
		}
		pl, lt = ms, m3u8.MASTER
		verifrt.Cover("master")
	}
	if verifrt.Symbolic() {
		verifmodel.M3U8Playlist, verifmodel.M3U8Type = pl, lt
	} else {
		var err error
		pl, lt, err = m3u8.DecodeFrom(bytes.NewReader([]byte(text)), true)
		if err != nil {
			panic(err)
		}
	}
	want := c19RefWalk(pl, lt)
	got, err := M3U8(c19URLWithBody(text))
	verifrt.Assert(err == nil, "C19 M3U8: a decodable playlist is accepted")
	verifrt.Assert(len(got) == len(want), "C19 M3U8: every segment, variant and alternative URI is returned, nothing else")
	for i := range want {
		if i < len(got) {
			verifrt.Assert(got[i].Raw == want[i], "C19 M3U8: URIs are returned in playlist order")
		}
	}
}

func bytesReader(s string) *bytes.Reader { return bytes.NewReader([]byte(s)) }

// ---------- XML documents ----------

type c19XMLWant struct {
	raw   string
	asset bool
}

// c19XMLNode renders one XML node whose kind is chosen symbolically and records the URLs planted in attributes and
// text nodes. The real encoding/xml tokenizer reads the rendered bytes (from SSA in the symbolic run).
func c19XMLNode(depth int, name string, want *[]c19XMLWant) string {
	kinds := 9
	if depth == 0 {
		kinds = 8
	}
	switch verifrt.Choice("kind_"+name, kinds) {
	case 0: // URL with an extension in an attribute, self-closing element
		*want = append(*want, c19XMLWant{"http://a.b/x.png", true})
		return `<enclosure url="http://a.b/x.png" length="3"/>`
	case 1: // URL without extension as the text of an element
		*want = append(*want, c19XMLWant{"https://c.d/page", false})
		return `<loc>https://c.d/page</loc>`
	case 2: // no URL at all
		return `<t id="n1">plain text</t>`
	case 3: // CDATA section
		*want = append(*want, c19XMLWant{"http://e.f/cdata.mp3", true})
		return `<d><![CDATA[http://e.f/cdata.mp3]]></d>`
	case 4: // entity-escaped query: the tokenizer hands out the unescaped text
		*want = append(*want, c19XMLWant{"http://g.h/q?a=1&b=2", false})
		return `<link>http://g.h/q?a=1&amp;b=2</link>`
	case 5: // two attributes of one element, namespace prefix
		*want = append(*want, c19XMLWant{"https://i.j/thumb.jpg", true}, c19XMLWant{"http://k.l/watch", false})
		return `<media:content thumb="https://i.j/thumb.jpg" rel="x" href="http://k.l/watch"></media:content>`
	case 6: // mixed content: the URL is the text that FOLLOWS a child element
		*want = append(*want, c19XMLWant{"https://m.n/tail", false})
		return `<entry><id>42</id>https://m.n/tail</entry>`
	case 7: // ... or follows a self-closing element
		*want = append(*want, c19XMLWant{"http://o.p/after-br.mp4", true})
		return `<p>first line<br/>http://o.p/after-br.mp4</p>`
	default: // container with up to two children
		s := "<item>"
		n := 1 + verifrt.Choice("len_"+name, 2)
		for i := 0; i < n; i++ {
			s += c19XMLNode(depth-1, name+string(rune('0'+i)), want)
		}
		return s + "</item>"
	}
}

// VerifH_C19_xml: every absolute http(s) URL in an attribute or a text node (leading, or following a child element) of an XML document is discovered; URLs
// whose last path segment has a file extension are assets, the others outlinks.
func VerifH_C19_xml() {
	var want []c19XMLWant
	doc := `<?xml version="1.0" encoding="UTF-8"?><rss version="2.0">`
	n := 1 + verifrt.Choice("top", 2)
	for i := 0; i < n; i++ {
		doc += c19XMLNode(1, "r"+string(rune('0'+i)), &want)
	}
	doc += "</rss>"
	u := c19URLWithBody(doc)
	assets, outlinks, err := XML(u)
	verifrt.Assert(err == nil, "C19 XML: a well-formed document is read to its end")
	count := func(list []*models.URL, raw string) int {
		c := 0
		for _, x := range list {
			if x != nil && x.Raw == raw {
				c++
			}
		}
		return c
	}
	planted := map[string]int{}
	for _, w := range want {
		planted[w.raw]++
	}
	for _, w := range want {
		verifrt.Cover("xml-url-planted")
		if w.asset {
			verifrt.Cover("xml-asset")
			verifrt.Assert(count(assets, w.raw) == planted[w.raw] && count(outlinks, w.raw) == 0, "C19 XML: URLs with a file extension are assets")
		} else {
			verifrt.Cover("xml-outlink")
			verifrt.Assert(count(outlinks, w.raw) == planted[w.raw] && count(assets, w.raw) == 0, "C19 XML: URLs without a file extension are outlinks")
		}
	}
	verifrt.Assert(len(assets)+len(outlinks) == len(want), "C19 XML: nothing but the URLs of the document is discovered")
	if len(want) > 2 {
		verifrt.Cover("xml-several")
	}
}

// VerifH_C10_xml_truncated: an XML document cut at any byte (a server can stop anywhere) costs an error or fewer
// links, never a panic or an endless loop; the sitemap sniffer reads it too.
func VerifH_C10_xml_truncated() {
	doc := `<?xml version="1.0"?><urlset xmlns="http://www.sitemaps.org/schemas/sitemap/0.9"><url><loc>https://c.d/page</loc><x a="http://a.b/x.png"/><![CDATA[z]]><!-- c --></url></urlset>`
	cut := int(verifrt.IntRange("cut", 0, int64(len(doc))))
	u := c19URLWithBody(doc[:cut])
	sitemap := IsSitemapXML(u)
	assets, outlinks, err := XML(u)
	verifrt.Cover("xml-cut")
	if cut == len(doc) {
		verifrt.Cover("xml-whole")
		verifrt.Assert(err == nil && sitemap && len(assets)+len(outlinks) == 3, "C10 XML: the whole document yields its links")
	}
	if err != nil {
		verifrt.Cover("xml-error")
	}
	verifrt.Assert(len(assets)+len(outlinks) <= 3, "C10 XML: a truncated document yields at most the links of the whole one")
}
