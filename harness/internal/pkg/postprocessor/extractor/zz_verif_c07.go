//go:build verif

package extractor

import (
	"github.com/PuerkitoBio/goquery"
	"github.com/internetarchive/Zeno/internal/pkg/config"
	"github.com/internetarchive/Zeno/internal/verifrt"
	"github.com/internetarchive/Zeno/pkg/models"
	"golang.org/x/net/html"
)

type c07El struct {
	tag   string
	attrs [][2]string
}

func c07Node(tag string, attrs [][2]string) *html.Node {
	// (DataAtom stays 0, as for an element the parser does not know: goquery/cascadia match on Data)
	n := &html.Node{Type: html.ElementNode, Data: tag}
	for _, a := range attrs {
		n.Attr = append(n.Attr, html.Attribute{Key: a[0], Val: a[1]})
	}
	return n
}

func c07Render(els []c07El) string {
	s := "<html><head></head><body>"
	for _, e := range els {
		s += "<" + e.tag
		for _, a := range e.attrs {
			s += " " + a[0] + "=\"" + a[1] + "\""
		}
		s += "></" + e.tag + ">"
	}
	return s + "</body></html>"
}

// c07Disabled: the --disable-html-tag setting: nothing, one tag, or two tags.
var c07Disabled = [][]string{nil, {"img"}, {"script"}, {"link"}, {"video"}, {"audio"}, {"source"}, {"a"}, {"img", "audio"}, {"video", "source"}}

func c07In(list []string, s string) bool {
	for _, x := range list {
		if x == s {
			return true
		}
	}
	return false
}

// c07Check runs the real extractors on the page made of els and checks them against the attribute table.
func c07Check(cfg *config.Config, disabled []string, els []c07El, wantAssets []string, wantOut string) {
	page := "http://site.example/dir/page"
	u := &models.URL{Raw: page}
	if err := u.Parse(); err != nil {
		panic(err)
	}
	item := models.NewItem("p", u, "")
	if verifrt.Symbolic() {
		root := &html.Node{Type: html.DocumentNode}
		h := c07Node("html", nil)
		root.AppendChild(h)
		h.AppendChild(c07Node("head", nil))
		b := c07Node("body", nil)
		h.AppendChild(b)
		for _, e := range els {
			b.AppendChild(c07Node(e.tag, e.attrs))
		}
		u.SetDocument(goquery.NewDocumentFromNode(root))
	}
	u.SetBody(&c19Body{Reader: bytesReader(c07Render(els))})
	assets, err := HTMLAssets(item)
	verifrt.Assert(err == nil, "C07 a parsed page yields its assets")
	has := func(list []*models.URL, raw string) bool {
		for _, x := range list {
			if x != nil && x.Raw == raw {
				return true
			}
		}
		return false
	}
	for _, w := range wantAssets {
		verifrt.Cover("asset-expected")
		verifrt.Assert(has(assets, w), "C07 every URL in a standard embedding attribute becomes an asset")
	}
	if len(disabled) > 0 {
		verifrt.Cover("tag-disabled")
		for _, a := range assets {
			for _, e := range els {
				if c07In(disabled, e.tag) {
					for _, at := range e.attrs {
						if at[0] == "src" || at[0] == "href" {
							verifrt.Assert(a.Raw != at[1], "C07 a disabled tag yields no asset")
						}
					}
				}
			}
		}
	}
	outlinks, err := HTMLOutlinks(item)
	verifrt.Assert(err == nil, "C07 a parsed page yields its outlinks")
	if wantOut != "" {
		if !c07In(disabled, "a") {
			verifrt.Cover("anchor")
			verifrt.Assert(has(outlinks, wantOut), "C07 anchor targets are outlinks, resolved against the page")
		} else {
			verifrt.Cover("anchor-disabled")
			verifrt.Assert(!has(outlinks, wantOut), "C07 a disabled tag yields no outlink")
		}
	}
}

// VerifH_C07_attributes: every URL in a standard embedding attribute of the page comes back as an asset (handed on as
// written; the preprocessor resolves it, C05/C09), unless its tag is disabled; anchors come back as outlinks. The DOM is
// built directly (symbolic run) or rendered and parsed by the real HTML parser (native replay); goquery/cascadia run
// their real code on it.
func VerifH_C07_attributes() {
	cfg := &config.Config{}
	disabled := c07Disabled[verifrt.Choice("disable-html-tag", len(c07Disabled))]
	cfg.DisableHTMLTag = disabled
	cfg.CaptureAlternatePages = verifrt.Choice("capture-alternate", 2) == 1
	config.VerifSet(cfg)
	var els []c07El
	var wantAssets []string
	want := func(tag, u string) {
		if !c07In(disabled, tag) {
			wantAssets = append(wantAssets, u)
		}
	}
	switch verifrt.Choice("img", 4) {
	case 1:
		els = append(els, c07El{"img", [][2]string{{"src", "http://cdn.example/i.png"}}})
		want("img", "http://cdn.example/i.png")
	case 2:
		els = append(els, c07El{"img", [][2]string{{"src", "/rel/i.png"}}})
		want("img", "/rel/i.png")
	case 3:
		els = append(els, c07El{"img", [][2]string{{"srcset", "http://cdn.example/a.png 1x, http://cdn.example/b.png 2x"}}})
		want("img", "http://cdn.example/a.png")
		want("img", "http://cdn.example/b.png")
		verifrt.Cover("srcset")
	}
	if verifrt.Choice("script", 2) == 1 {
		els = append(els, c07El{"script", [][2]string{{"src", "js/app.js"}}})
		want("script", "js/app.js")
		verifrt.Cover("relative-script")
	}
	switch verifrt.Choice("link", 3) {
	case 1:
		els = append(els, c07El{"link", [][2]string{{"rel", "stylesheet"}, {"href", "http://cdn.example/s.css"}}})
		want("link", "http://cdn.example/s.css")
	case 2:
		els = append(els, c07El{"link", [][2]string{{"rel", "alternate"}, {"href", "http://site.example/feed.xml"}}})
		if cfg.CaptureAlternatePages {
			want("link", "http://site.example/feed.xml")
		}
		verifrt.Cover("alternate")
	}
	wantOut := ""
	switch verifrt.Choice("anchor", 4) {
	case 1: // dot segments
		els = append(els, c07El{"a", [][2]string{{"href", "../next.html"}}})
		wantOut = "http://site.example/next.html"
	case 2: // query-only reference: replaces the page's query, keeps its path
		els = append(els, c07El{"a", [][2]string{{"href", "?page=2"}}})
		wantOut = "http://site.example/dir/page?page=2"
		verifrt.Cover("query-only-anchor")
	case 3: // scheme-relative reference
		els = append(els, c07El{"a", [][2]string{{"href", "//other.example/x?y=1"}}})
		wantOut = "http://other.example/x?y=1"
	}
	c07Check(cfg, disabled, els, wantAssets, wantOut)
}

// VerifH_C07_media: the same for the media elements - video/audio src, source src/srcset - alone and together, under
// every --disable-html-tag setting (each tag is switched off by its own name only).
func VerifH_C07_media() {
	cfg := &config.Config{}
	disabled := c07Disabled[verifrt.Choice("disable-html-tag", len(c07Disabled))]
	cfg.DisableHTMLTag = disabled
	config.VerifSet(cfg)
	var els []c07El
	var wantAssets []string
	want := func(tag, u string) {
		if !c07In(disabled, tag) {
			wantAssets = append(wantAssets, u)
		}
	}
	if verifrt.Choice("video", 2) == 1 {
		els = append(els, c07El{"video", [][2]string{{"src", "http://cdn.example/v.mp4"}}})
		want("video", "http://cdn.example/v.mp4")
	}
	if verifrt.Choice("audio", 2) == 1 {
		els = append(els, c07El{"audio", [][2]string{{"src", "http://cdn.example/s.mp3"}}})
		want("audio", "http://cdn.example/s.mp3")
		verifrt.Cover("audio")
	}
	switch verifrt.Choice("source", 3) {
	case 1:
		els = append(els, c07El{"source", [][2]string{{"src", "http://cdn.example/t.webm"}}})
		want("source", "http://cdn.example/t.webm")
	case 2:
		els = append(els, c07El{"source", [][2]string{{"srcset", "http://cdn.example/l.jpg 800w, /m.jpg 400w"}}})
		want("source", "http://cdn.example/l.jpg")
		want("source", "/m.jpg")
		verifrt.Cover("source-srcset")
	}
	wantOut := ""
	if verifrt.Choice("anchor", 2) == 1 {
		els = append(els, c07El{"a", [][2]string{{"href", "../next.html"}}})
		wantOut = "http://site.example/next.html"
	}
	c07Check(cfg, disabled, els, wantAssets, wantOut)
}
