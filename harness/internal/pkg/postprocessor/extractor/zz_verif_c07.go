//go:build verif

package extractor

import (
	"github.com/PuerkitoBio/goquery"
	"github.com/internetarchive/Zeno/internal/pkg/config"
	"github.com/internetarchive/Zeno/internal/verifrt"
	"github.com/internetarchive/Zeno/pkg/models"
	"golang.org/x/net/html"
	"golang.org/x/net/html/atom"
)

type c07El struct {
	tag   string
	attrs [][2]string
}

func c07Node(tag string, attrs [][2]string) *html.Node {
	n := &html.Node{Type: html.ElementNode, Data: tag, DataAtom: atom.Lookup([]byte(tag))}
	for _, a := range attrs {
		n.Attr = append(n.Attr, html.Attribute{Key: a[0], Val: a[1]})
	}
	return n
}

func c07Render(els []c07El) string {
	s := "<html><head></head><body>"
	for _, e := range els {
		s += "<" + e.tag
		for _, a := range e.attrs {
			s += " " + a[0] + "=\"" + a[1] + "\""
		}
		s += "></" + e.tag + ">"
	}
	return s + "</body></html>"
}

// VerifH_C07_attributes: every URL in a standard embedding attribute of the page comes back as an asset (resolved
// against the page URL), unless its tag is disabled; anchors come back as outlinks. The DOM is built directly (symbolic
// run) or rendered and parsed by the real HTML parser (native replay); goquery/cascadia run their real code on it.
func VerifH_C07_attributes() {
	cfg := &config.Config{}
	disabled := []string{"", "img", "script", "link"}[verifrt.Choice("disable-html-tag", 4)]
	if disabled != "" {
		cfg.DisableHTMLTag = []string{disabled}
	}
	cfg.CaptureAlternatePages = verifrt.Choice("capture-alternate", 2) == 1
	config.VerifSet(cfg)
	page := "http://site.example/dir/page"
	var els []c07El
	var wantAssets []string
	want := func(tag, u string) {
		if tag != disabled {
			wantAssets = append(wantAssets, u)
		}
	}
	switch verifrt.Choice("img", 4) {
	case 1:
		els = append(els, c07El{"img", [][2]string{{"src", "http://cdn.example/i.png"}}})
		want("img", "http://cdn.example/i.png")
	case 2:
		els = append(els, c07El{"img", [][2]string{{"src", "/rel/i.png"}}})
		want("img", "/rel/i.png") // assets are handed on as written; the preprocessor resolves them against the page (C05/C09)
	case 3:
		els = append(els, c07El{"img", [][2]string{{"srcset", "http://cdn.example/a.png 1x, http://cdn.example/b.png 2x"}}})
		want("img", "http://cdn.example/a.png")
		want("img", "http://cdn.example/b.png")
		verifrt.Cover("srcset")
	}
	if verifrt.Choice("script", 2) == 1 {
		els = append(els, c07El{"script", [][2]string{{"src", "js/app.js"}}})
		want("script", "js/app.js")
		verifrt.Cover("relative-script")
	}
	switch verifrt.Choice("link", 3) {
	case 1:
		els = append(els, c07El{"link", [][2]string{{"rel", "stylesheet"}, {"href", "http://cdn.example/s.css"}}})
		want("link", "http://cdn.example/s.css")
	case 2:
		els = append(els, c07El{"link", [][2]string{{"rel", "alternate"}, {"href", "http://site.example/feed.xml"}}})
		if cfg.CaptureAlternatePages {
			want("link", "http://site.example/feed.xml")
		}
		verifrt.Cover("alternate")
	}
	switch verifrt.Choice("media", 4) {
	case 1:
		els = append(els, c07El{"video", [][2]string{{"src", "http://cdn.example/v.mp4"}}})
		want("video", "http://cdn.example/v.mp4")
	case 2:
		els = append(els, c07El{"audio", [][2]string{{"src", "http://cdn.example/s.mp3"}}})
		want("audio", "http://cdn.example/s.mp3")
	case 3:
		els = append(els, c07El{"source", [][2]string{{"src", "http://cdn.example/t.webm"}}})
		want("source", "http://cdn.example/t.webm")
	}
	wantOut := ""
	if verifrt.Choice("anchor", 2) == 1 {
		els = append(els, c07El{"a", [][2]string{{"href", "../next.html"}}})
		wantOut = "http://site.example/next.html"
	}
	u := &models.URL{Raw: page}
	if err := u.Parse(); err != nil {
		panic(err)
	}
	item := models.NewItem("p", u, "")
	if verifrt.Symbolic() {
		root := &html.Node{Type: html.DocumentNode}
		h := c07Node("html", nil)
		root.AppendChild(h)
		h.AppendChild(c07Node("head", nil))
		b := c07Node("body", nil)
		h.AppendChild(b)
		for _, e := range els {
			b.AppendChild(c07Node(e.tag, e.attrs))
		}
		u.SetDocument(goquery.NewDocumentFromNode(root))
	}
	u.SetBody(&c19Body{Reader: bytesReader(c07Render(els))})
	assets, err := HTMLAssets(item)
	verifrt.Assert(err == nil, "C07 a parsed page yields its assets")
	has := func(list []*models.URL, raw string) bool {
		for _, x := range list {
			if x != nil && x.Raw == raw {
				return true
			}
		}
		return false
	}
	for _, w := range wantAssets {
		verifrt.Cover("asset-expected")
		verifrt.Assert(has(assets, w), "C07 every URL in a standard embedding attribute becomes an asset")
	}
	if disabled != "" {
		verifrt.Cover("tag-disabled")
		for _, a := range assets {
			for _, e := range els {
				if e.tag == disabled {
					for _, at := range e.attrs {
						verifrt.Assert(a.Raw != at[1], "C07 a disabled tag yields no asset")
					}
				}
			}
		}
	}
	outlinks, err := HTMLOutlinks(item)
	verifrt.Assert(err == nil, "C07 a parsed page yields its outlinks")
	if wantOut != "" {
		verifrt.Cover("anchor")
		verifrt.Assert(has(outlinks, wantOut), "C07 anchor targets are outlinks, resolved against the page")
	}
}
