//go:build verif

package postprocessor

import (
	"bytes"
	"net/http"

	"github.com/gabriel-vasile/mimetype"
	"github.com/internetarchive/Zeno/internal/pkg/config"
	"github.com/internetarchive/Zeno/internal/pkg/postprocessor/domainscrawl"
	"github.com/internetarchive/Zeno/internal/verifmodel"
	"github.com/internetarchive/Zeno/internal/verifrt"
	"github.com/internetarchive/Zeno/pkg/models"
)

type c06Body struct {
	*bytes.Reader
	closed int
}

func (b *c06Body) Close() error     { b.closed++; return nil }
func (b *c06Body) FileName() string { return "" }
func (b *c06Body) Len() int         { return b.Reader.Len() }

func c06URL(raw string) *models.URL {
	u := &models.URL{Raw: raw}
	if err := u.Parse(); err != nil {
		panic(err)
	}
	return u
}

// c06Chain builds seed -> ... -> item with the given edge kinds (true = redirection edge, false = asset edge).
func c06Chain(edges []bool) *models.Item {
	cur := models.NewItem("n0", c06URL("http://site.example/p0"), "")
	for i, redir := range edges {
		child := models.NewItem("n"+string(rune('1'+i)), c06URL("http://site.example/p"+string(rune('1'+i))), "")
		from := models.ItemGotChildren
		if redir {
			from = models.ItemGotRedirected
		}
		if err := cur.AddChild(child, from); err != nil {
			panic(err)
		}
		cur = child
	}
	return cur
}

// VerifH_C06_postprocess: one post-processing step of an archived item at an arbitrary position of the tree, for every
// response class, extractor outcome and limit setting: redirects, asset depth and hops stay within their bounds.
func VerifH_C06_postprocess() {
	// position in the tree: a chain of asset edges and at most one redirection edge (before or after them)
	nAsset := verifrt.Choice("asset-edges", 4)
	nRedir := verifrt.Choice("redirect-edges", 2)
	redirFirst := nRedir == 1 && verifrt.Choice("redirect-first", 2) == 1
	var edges []bool
	if redirFirst {
		edges = append(edges, true)
	}
	for i := 0; i < nAsset; i++ {
		edges = append(edges, false)
	}
	if nRedir == 1 && !redirFirst {
		edges = append(edges, true)
	}
	depth := len(edges)
	assetDepth := nAsset
	item := c06Chain(edges)
	// limits
	maxRedirect := int(verifrt.IntRange("max-redirect", 0, 3))
	maxHops := int(verifrt.IntRange("max-hops", 0, 2))
	cfg := &config.Config{MaxRedirect: maxRedirect, MaxHops: maxHops, DisableAssetsCapture: verifrt.Choice("disable-assets", 2) == 1}
	config.VerifSet(cfg)
	domains := verifrt.Choice("domains-crawl", 2) == 1
	domainscrawl.Reset()
	if domains {
		_ = domainscrawl.AddElements([]string{"site.example"})
	}
	// the item's own counters
	redirects := int(verifrt.IntRange("redirects", 0, 3))
	hops := int(verifrt.IntRange("hops", 0, 2))
	item.GetURL().Redirects = redirects
	item.GetURL().Hops = hops
	// the response and the document (natively the real extractors read the body; symbolically they are modelled)
	status := []int{200, 301, 308, 404, 500}[verifrt.Choice("status", 5)]
	kind := []string{"json", "html", ""}[verifrt.Choice("doc", 3)]
	na := 2 * verifrt.Choice("assets/2", 2)
	no := verifrt.Choice("outlinks", 3)
	fails := kind == "json" && verifrt.Choice("extractor-fails", 2) == 1
	var assets, outs []string
	for i := 0; i < na; i++ {
		if i == 1 {
			// an embedded resource that lives under the page's own URL (only the page itself is filtered out, not what is below it)
			assets = append(assets, "http://site.example/p"+string(rune('0'+depth))+"/i.png")
			continue
		}
		assets = append(assets, "http://cdn.example/a"+string(rune('0'+i))+".png")
	}
	for i := 0; i < no; i++ {
		host := "other.example"
		if verifrt.Choice("outlink-matches-domains", 2) == 1 {
			host = "site.example" // the domains-crawl pattern
		}
		raw := "http://" + host + "/o" + string(rune('0'+i))
		outs = append(outs, raw)
		verifmodel.DomainMatch[raw] = host == "site.example"
	}
	ctype, text := "application/octet-stream", "x"
	switch kind {
	case "json":
		ctype = "application/json"
		text = "{\"k\":["
		for i, u := range append(append([]string{}, assets...), outs...) {
			if i > 0 {
				text += ","
			}
			text += "\"" + u + "\""
		}
		text += "]}"
		if fails {
			text = "{\"k\":["
		}
	case "html":
		ctype = "application/xhtml+xml; charset=utf-8"
		text = "<html><body>"
		for _, u := range assets {
			text += "<img src=\"" + u + "\">"
		}
		for _, u := range outs {
			text += "<a href=\"" + u + "\">l</a>"
		}
		text += "</body></html>"
	}
	hdr := http.Header{"Location": []string{"http://site.example/next"}, "Content-Type": []string{ctype}}
	noLocation := (status == 301 || status == 308) && verifrt.Choice("redirect-without-location", 2) == 1
	if noLocation {
		hdr.Del("Location") // a 3xx answer that names no target (300 Multiple Choices, broken servers)
		verifrt.Cover("redirect-without-location")
	}
	verifmodel.HeaderLinks = nil
	if verifrt.Choice("link-header", 2) == 1 {
		// a Link response header is one more source of outlinks
		hdr["Link"] = []string{"<http://other.example/h0>; rel=\"next\""}
		verifmodel.HeaderLinks = []string{"http://other.example/h0"}
		verifmodel.DomainMatch["http://other.example/h0"] = false
		verifrt.Cover("link-header")
	}
	resp := &http.Response{StatusCode: status, Header: hdr}
	item.GetURL().SetResponse(resp)
	body := &c06Body{Reader: bytes.NewReader([]byte(text))}
	if verifrt.Choice("has-body", 2) == 1 {
		item.GetURL().SetBody(body)
	}
	if !verifrt.Symbolic() {
		item.GetURL().SetMIMEType(mimetype.Detect([]byte(text)))
	}
	item.SetStatus(models.ItemArchived)
	verifmodel.DocKind, verifmodel.DocAssets, verifmodel.DocOutlinks, verifmodel.DocErr = kind, assets, outs, fails
	verifmodel.MIME = ctype

	hadBody := item.GetURL().GetBody() != nil
	outlinks := postprocessItem(item)

	isRedirect := status == 301 || status == 308
	kids := item.GetChildren()
	// the item never stays "archived": it is finished, or waits for its children / redirect target
	st := item.GetStatus()
	verifrt.Assert(st == models.ItemCompleted || st == models.ItemGotChildren || st == models.ItemGotRedirected, "C06 post-processing leaves no item pending")
	verifrt.Assert((st == models.ItemCompleted) == (len(kids) == 0), "C06 item is complete exactly when it got no children")
	if isRedirect {
		verifrt.Assert(len(outlinks) == 0, "C06 a redirect yields no outlinks")
		if redirects >= maxRedirect {
			verifrt.Cover("redirect-limit-reached")
			verifrt.Assert(len(kids) == 0, "C06 at most max-redirect redirects are followed in a chain")
		} else {
			verifrt.Cover("redirect-followed")
			if !noLocation { // (without a target the node must simply not stay pending: asserted above)
				verifrt.Assert(len(kids) == 1 && st == models.ItemGotRedirected, "C06 a redirect below the limit is followed")
			}
			if len(kids) == 1 && !noLocation {
				verifrt.Assert(kids[0].GetURL().Redirects == redirects+1, "C06 the redirect target carries redirects+1")
				verifrt.Assert(kids[0].GetURL().Hops == hops, "C06 the redirect target inherits the page's hops")
				verifrt.Assert(kids[0].GetURL().Raw == "http://site.example/next", "C06 the redirect target is the Location")
			}
		}
	} else {
		// embedded resources at most three levels below the page (when domains crawl is not active)
		if !domains && assetDepth > 2 {
			verifrt.Cover("asset-depth-limit")
			verifrt.Assert(len(kids) == 0, "C06 no embedded resources more than three levels below the page")
		}
		if cfg.DisableAssetsCapture && !domains {
			verifrt.Assert(len(kids) == 0, "C06 no assets when asset capture is off")
		}
		for _, k := range kids {
			verifrt.Cover("asset-added")
			verifrt.Assert(k.GetURL().Hops == hops && k.GetURL().Redirects == 0, "C06 assets inherit the page's hops")
			verifrt.Assert(status == 200, "C06 assets only come from successful responses")
		}
		for _, o := range outlinks {
			verifrt.Cover("outlink-queued")
			matches := domains && verifmodel.DomainMatch[o.GetURL().Raw]
			if matches {
				verifrt.Cover("outlink-domains-crawl")
				verifrt.Assert(o.GetURL().Hops == 0, "C06 outlinks matching domains-crawl are queued with hops 0")
			} else {
				verifrt.Assert(hops < maxHops, "C06 other outlinks are queued only from pages with fewer than max-hops hops")
				verifrt.Assert(o.GetURL().Hops == hops+1, "C06 other outlinks carry the parent's hops + 1")
			}
			verifrt.Assert(o.GetSeedVia() == "http://site.example/p"+string(rune('0'+depth)), "C06 outlinks carry their parent page as via")
			verifrt.Assert(o.IsSeed() && o.GetStatus() == models.ItemFresh, "C06 outlinks are fresh seeds")
		}
	}
	// sufficiency (C07's clause): a successfully fetched document's anchors reach the queue whenever the hop limit allows,
	// with or without asset capture
	if !isRedirect && status == 200 && kind == "html" && hadBody && !domains && hops < maxHops && (assetDepth <= 2) &&
		!(assetDepth == 1 && kind == "html") {
		for _, want := range outs {
			found := false
			for _, o := range outlinks {
				if o.GetURL().Raw == want {
					found = true
				}
			}
			verifrt.Cover("outlink-expected")
			verifrt.Assert(found, "C07 anchor targets are handed to the queue whenever the hop limit allows")
		}
	}
	// sufficiency for assets (C07): what the extractor found in a successfully fetched document is fetched as a child,
	// unless capture is off, the depth limit applies, or the document is itself an HTML page embedded as an asset
	if !isRedirect && status == 200 && kind != "" && !fails && hadBody && !domains && !cfg.DisableAssetsCapture && assetDepth <= 2 &&
		!(assetDepth == 1 && kind == "html") {
		for _, want := range assets {
			found := false
			for _, k := range kids {
				if k.GetURL().Raw == want {
					found = true
				}
			}
			verifrt.Cover("asset-expected")
			verifrt.Assert(found, "C07 every embedded resource the extractor found is fetched as an asset")
		}
	}
	// the body is closed and released whatever happened (C16)
	if hadBody {
		verifrt.Cover("body-released")
		verifrt.Assert(body.closed >= 1, "C16 the body is closed after post-processing")
		verifrt.Assert(item.GetURL().GetBody() == nil, "C16 the item no longer holds its body after post-processing")
	}
}

// VerifH_C16_close_bodies: after a seed has been through the post-processor no node of its tree, at any depth and in
// any status, still holds an open body.
func VerifH_C16_close_bodies() {
	seed := models.NewItem("s", c06URL("http://site.example/"), "")
	var all []*models.Item
	var bodies []*c06Body
	give := func(it *models.Item, name string) {
		all = append(all, it)
		if verifrt.Choice("has-body-"+name, 2) == 1 {
			b := &c06Body{Reader: bytes.NewReader([]byte("x"))}
			it.GetURL().SetBody(b)
			bodies = append(bodies, b)
		} else {
			bodies = append(bodies, nil)
		}
	}
	give(seed, "seed")
	n := verifrt.Choice("children", 3)
	for i := 0; i < n; i++ {
		c := models.NewItem("c"+string(rune('0'+i)), c06URL("http://site.example/c"+string(rune('0'+i))), "")
		if err := seed.AddChild(c, models.ItemGotChildren); err != nil {
			panic(err)
		}
		c.SetStatus(models.ItemState(verifrt.IntRange("status", 0, 7)))
		give(c, "c"+string(rune('0'+i)))
		if i == 0 && verifrt.Choice("grandchild", 2) == 1 {
			g := models.NewItem("g", c06URL("http://site.example/g"), "")
			if err := c.AddChild(g, models.ItemGotChildren); err != nil {
				panic(err)
			}
			give(g, "g")
			verifrt.Cover("three-levels")
		}
	}
	closeBodies(seed)
	for i, it := range all {
		verifrt.Assert(it.GetURL().GetBody() == nil, "C16 no node of a post-processed seed holds a body")
		if bodies[i] != nil {
			verifrt.Cover("body-closed")
			verifrt.Assert(bodies[i].closed == 1, "C16 every body of the tree is closed exactly once")
		}
	}
}
