//go:build verif

package postprocessor

import (
	"bytes"
	"net/http"

	"github.com/gabriel-vasile/mimetype"
	"github.com/internetarchive/Zeno/internal/pkg/config"
	"github.com/internetarchive/Zeno/internal/pkg/controler/pause"
	"github.com/internetarchive/Zeno/internal/pkg/stats"
	"github.com/internetarchive/Zeno/internal/verifmodel"
	"github.com/internetarchive/Zeno/internal/verifrt"
	"github.com/internetarchive/Zeno/pkg/models"
)

// VerifH_C03_postprocessor_stop: the real Start/Stop and worker loops of this stage: Stop returns whatever the stage is doing -
// idle, holding a seed nobody downstream reads, or paused - for 1-2 workers and every interleaving within the bound.
func VerifH_C03_postprocessor_stop() {
	_ = stats.Init() // native replay needs the stats singleton; the symbolic run stubs the stats package
	config.VerifSet(&config.Config{WorkersCount: 1 + verifrt.Choice("workers-1", 2)})
	in := make(chan *models.Item, 1)
	outCap := verifrt.Choice("downstream-capacity", 2) // 0: nobody takes the seed
	out := make(chan *models.Item, outCap)
	stuck, late := false, false
	err := Start(in, out)
	verifrt.Assert(err == nil, "C03 stage starts")
	verifrt.Quiesce()
	switch verifrt.Choice("seed", 3) {
	case 1:
		s := models.NewItem("seed-1", &models.URL{Raw: "http://x.example/"}, "")
		s.SetStatus(models.ItemCompleted) // passes through without payload work
		in <- s
		verifrt.Settle() // native replay: let the worker take the seed and reach the hand-off
		stuck = outCap == 0
		verifrt.Cover("seed-in-flight")
	case 2:
		// an archived page with two anchors and hops left: the worker hands two outlinks and then the seed downstream
		config.Get().MaxHops = 1
		s := models.NewItem("seed-1", c06URL("http://site.example/p0"), "")
		outs := []string{"http://other.example/o0", "http://other.example/o1"}
		text := "<html><body><a href=\"" + outs[0] + "\">l</a><a href=\"" + outs[1] + "\">l</a></body></html>"
		ctype := "application/xhtml+xml; charset=utf-8"
		s.GetURL().SetResponse(&http.Response{StatusCode: 200, Header: http.Header{"Content-Type": []string{ctype}}})
		s.GetURL().SetBody(&c06Body{Reader: bytes.NewReader([]byte(text))})
		if !verifrt.Symbolic() {
			s.GetURL().SetMIMEType(mimetype.Detect([]byte(text)))
		}
		s.SetStatus(models.ItemArchived)
		verifmodel.DocKind, verifmodel.DocAssets, verifmodel.DocOutlinks, verifmodel.DocErr = "html", nil, outs, false
		verifmodel.MIME = ctype
		verifmodel.HeaderLinks = nil
		in <- s
		verifrt.Settle()
		stuck = true // three hand-offs into a channel of capacity <= 1 that nobody reads
		verifrt.Cover("outlinks-in-flight")
	}
	switch verifrt.Choice("pause", 3) {
	case 1:
		pause.Pause("verif")
		verifrt.Settle()
		verifrt.Cover("stop-while-paused")
		if !stuck {
			verifrt.Quiesce() // every idle worker has seen the pause and waits to acknowledge it
			l := models.NewItem("late", &models.URL{Raw: "http://x.example/late"}, "")
			l.SetStatus(models.ItemCompleted)
			in <- l // work arrives while the stage is paused
			late = true
			verifrt.Cover("work-arrives-while-paused")
		}
	case 2:
		if stuck {
			return // Resume legitimately waits for a worker that is stuck on a consumer that never reads: not a stop scenario
		}
		pause.Pause("verif")
		verifrt.Settle()
		pause.Resume()
		verifrt.Settle()
	}
	Stop() // a hang is reported by the engine as a deadlock
	verifrt.Cover("stopped")
	if late {
		verifrt.Assert(len(in) == 1, "C14 a paused worker takes no work, also when its stage is stopped while paused")
	}
}

// VerifH_C17_postprocessor_gauge: the worker gauge of this stage equals the number of live workers and is zero after stop,
// on every exit path of the worker loop (stopped idle or while paused) and for every interleaving.
func VerifH_C17_postprocessor_gauge() {
	_ = stats.Init()
	n := 1 + verifrt.Choice("workers-1", 2)
	config.VerifSet(&config.Config{WorkersCount: n})
	in := make(chan *models.Item, 1)
	out := make(chan *models.Item, 1)
	before := c17Gauge()
	err := Start(in, out)
	verifrt.Assert(err == nil, "C17 stage starts")
	verifrt.Quiesce()
	verifrt.Assert(c17Gauge() == before+uint64(n), "C17 worker gauge equals the number of live workers")
	if verifrt.Choice("pause", 2) == 1 {
		pause.Pause("verif")
		verifrt.Settle()
		verifrt.Cover("stopped-while-paused")
	}
	Stop()
	verifrt.Cover("stopped")
	verifrt.Assert(c17Gauge() == before, "C17 worker gauge is back to zero after stop")
}

func c17Gauge() uint64 { return stats.PostprocessorRoutinesGet() }
