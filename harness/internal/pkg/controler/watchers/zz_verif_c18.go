//go:build verif

package watchers

import (
	"math"

	"github.com/internetarchive/Zeno/internal/verifrt"
)

// oracleRefuse is written from the property statement, not from the code:
// refuse <=> free < T, T = msr GiB when msr > 0, else 50 GiB scaled by total/256 GiB
// for volumes of at most 256 GiB, else 50 GiB. Integer/real comparison is exact.
func oracleRefuse(total, free uint64, msr float64) bool {
	const GiB = uint64(1) << 30
	if msr > 0 {
		t := msr * float64(GiB) // power-of-two scaling: exact unless it overflows to +Inf
		if t >= 18446744073709551616.0 {
			return true // threshold beyond any representable free space (incl. +Inf)
		}
		c := math.Ceil(t) // integer-valued, < 2^64: free < T  <=>  free < ceil(T)
		return free < uint64(c)
	}
	if total <= 256*GiB {
		// T = 50 GiB * total / 256 GiB = total*25/128 (exact rational)
		if free >= 1<<36 {
			return false // free*128 >= 2^43 > total*25
		}
		return free*128 < total*25
	}
	return free < 50*GiB
}

// VerifH_C18_exact: the verdict equals the oracle for every (total, free, msr).
func VerifH_C18_exact() {
	total := verifrt.Uint64("total")
	free := verifrt.Uint64("free")
	msr := verifrt.Float64("msr")
	if !(msr > 0) && total <= 256<<30 {
		// Case split on the bit length of total (0..39): the union is every total <= 2^38.
		// It only fixes the normalisation shift of float64(total) per solver query.
		k := verifrt.Choice("total_bitlen", 40)
		if k == 0 {
			verifrt.Assume(total == 0)
		} else {
			verifrt.Assume(total>>uint(k-1) == 1)
		}
	}
	got := checkThreshold(total, free, msr) != nil
	want := oracleRefuse(total, free, msr)
	if msr > 0 {
		verifrt.Cover("operator-threshold")
	} else if total <= 256<<30 {
		verifrt.Cover("scaled-default")
	} else {
		verifrt.Cover("flat-default")
	}
	if got {
		verifrt.Cover("refused")
	} else {
		verifrt.Cover("accepted")
	}
	verifrt.Assert(got == want, "C18 refuse iff free below threshold")
}

// VerifH_C18_monotone: with the same volume and setting, more free space never turns accept into refuse.
func VerifH_C18_monotone() {
	total := verifrt.Uint64("total")
	free1 := verifrt.Uint64("free1")
	free2 := verifrt.Uint64("free2")
	msr := verifrt.Float64("msr")
	verifrt.Assume(free1 <= free2)
	a1 := checkThreshold(total, free1, msr) == nil
	a2 := checkThreshold(total, free2, msr) == nil
	if a1 && a2 {
		verifrt.Cover("both-accept")
	}
	if !a1 && a2 {
		verifrt.Cover("refuse-then-accept")
	}
	verifrt.Assert(!a1 || a2, "C18 monotone in free space")
}
