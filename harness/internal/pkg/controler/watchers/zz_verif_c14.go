//go:build verif

package watchers

import (
	"context"
	"time"

	"github.com/internetarchive/Zeno/internal/pkg/config"
	"github.com/internetarchive/Zeno/internal/pkg/controler/pause"
	"github.com/internetarchive/Zeno/internal/pkg/stats"
	"github.com/internetarchive/Zeno/internal/verifmodel"
	"github.com/internetarchive/Zeno/internal/verifrt"
)

func verifmodelQueue(n int) { verifmodel.WARCQueueLen = n }

// c14Stage follows the protocol of the stage workers: acknowledge a pause on ResumeCh, take no work in between,
// unsubscribe on the way out.
type c14Stage struct {
	chans    *pause.ControlChans
	stop     chan struct{}
	work     chan int
	paused   bool
	tookWork int
	exited   bool
}

func c14StartStage() *c14Stage {
	w := &c14Stage{stop: make(chan struct{}), work: make(chan int, 4)}
	w.chans = pause.Subscribe()
	verifrt.Go(func() {
		defer func() { w.exited = true }()
		defer pause.Unsubscribe(w.chans)
		for {
			select {
			case <-w.stop:
				return
			case <-w.chans.PauseCh:
				w.paused = true
				select {
				case w.chans.ResumeCh <- struct{}{}:
				case <-w.stop:
					return
				}
				w.paused = false
			case <-w.work:
				verifrt.Assert(!w.paused, "C14 a paused worker takes no work")
				w.tookWork++
			}
		}
	})
	return w
}

const (
	c14DiskOK  = 0.000001 // --min-space-required of about 1 KiB: any volume passes
	c14DiskLow = 1e12     // ... of 10^12 GiB: no volume passes
)

// VerifH_C14_disk_watchdog: the real disk watchdog loop and the operator (the UI's pause/unpause toggle) share the
// pause manager while a stage worker is subscribed: for every sequence of disk states, timer firings and operator
// actions every call returns, a pause request pauses the pipeline, the worker takes no work
// while paused and all work once resumed, and the watchdog and the worker stop whatever state they are in.
func VerifH_C14_disk_watchdog() {
	_ = stats.Init()
	cfg := &config.Config{MinSpaceRequired: c14DiskOK}
	config.VerifSet(cfg)
	diskWatcherCtx, diskWatcherCancel = context.WithCancel(context.Background())
	w := c14StartStage()
	interval := time.Hour // symbolic run: firings are granted explicitly
	if !verifrt.Symbolic() {
		interval = 20 * time.Millisecond
	}
	verifrt.Go(func() { WatchDiskSpace("/", interval) })
	verifrt.Quiesce()
	wdPaused := false // the watchdog's own view
	fed := 0
	for step := 0; step < 3; step++ {
		mustBePaused := false
		switch verifrt.Choice("event", 4) {
		case 0: // the volume runs low, the watchdog looks
			cfg.MinSpaceRequired = c14DiskLow
			verifrt.Quiesce()
			verifrt.EnvTicks(1)
			mustBePaused = !wdPaused // (a watchdog that already asked for the pause does not ask again)
			wdPaused = true
			verifrt.Cover("disk-low")
		case 1: // space is back, the watchdog looks
			cfg.MinSpaceRequired = c14DiskOK
			verifrt.Quiesce()
			verifrt.EnvTicks(1)
			if wdPaused {
				verifrt.Cover("watchdog-resumed")
			}
			wdPaused = false
		case 2: // the operator toggles, as ui/menu.go does
			if pause.IsPaused() {
				pause.Resume()
			} else {
				pause.Pause("operator")
				mustBePaused = true
			}
			verifrt.Cover("operator")
		case 3: // work arrives for the stage
			w.work <- step
			fed++
		}
		verifrt.Quiesce()
		// (whether a resume by one controller ends a pause another one asked for is the manager's policy, not demanded here)
		if mustBePaused {
			verifrt.Assert(pause.IsPaused(), "C14 a pause request pauses the pipeline")
		}
		verifrt.Assert(pause.IsPaused() == w.paused, "C14 every worker is paused exactly when the pipeline is (acknowledged / woken)")
		if pause.IsPaused() {
			verifrt.Cover("paused")
		} else {
			verifrt.Assert(w.tookWork == fed, "C14 resume wakes every worker")
		}
	}
	StopDiskWatcher() // a hang here is a deadlock
	verifrt.Cover("watchdog-stopped")
	close(w.stop)
	verifrt.Quiesce()
	verifrt.Assert(w.exited, "C14 a worker can exit whatever the pause state")
	if pause.IsPaused() {
		verifrt.Cover("left-paused")
		pause.Resume() // leaves the manager clean for the next replay iteration; must not block without subscribers
	}
}

// VerifH_C14_two_watchdogs: the disk watchdog and the WARC-queue watchdog (real loops, all three tickers) share the
// pause manager with a subscribed stage worker. Disk state and queue length change arbitrarily between timer
// firings, and which timer fires is the scheduler's choice. No call blocks for ever, the worker is paused exactly
// when the manager says so and takes no work meanwhile, and both watchdogs and the worker stop in any state.
// (Symbolic run only: natively the WARC client's queue length cannot be scripted from this package.)
func VerifH_C14_two_watchdogs() {
	if !verifrt.Symbolic() {
		return
	}
	cfg := &config.Config{MinSpaceRequired: c14DiskOK, WARCWriteAsync: true, WARCQueueSize: 1, WorkersCount: 1}
	config.VerifSet(cfg)
	diskWatcherCtx, diskWatcherCancel = context.WithCancel(context.Background())
	wwqCtx, wwqCancel = context.WithCancel(context.Background())
	w := c14StartStage()
	verifrt.Go(func() { WatchDiskSpace("/", time.Hour) })
	StartWatchWARCWritingQueue(time.Hour, 0, time.Hour)
	verifrt.Quiesce()
	fed := 0
	for step := 0; step < 2; step++ {
		if verifrt.Choice("disk-low", 2) == 1 {
			cfg.MinSpaceRequired = c14DiskLow
		} else {
			cfg.MinSpaceRequired = c14DiskOK
		}
		verifmodelQueue(2 * verifrt.Choice("queue-long", 2)) // 0 or 2 records waiting (limit 1)
		if verifrt.Choice("work", 2) == 1 {
			w.work <- step
			fed++
		}
		verifrt.Quiesce()
		verifrt.EnvTicks(1 + verifrt.Choice("firings-1", 2))
		verifrt.Quiesce()
		verifrt.Assert(pause.IsPaused() == w.paused, "C14 the worker is paused exactly when the pipeline is")
		if pause.IsPaused() {
			verifrt.Cover("paused")
		} else {
			verifrt.Assert(w.tookWork == fed, "C14 resume wakes every worker")
		}
	}
	StopDiskWatcher()
	StopWARCWritingQueueWatcher()
	verifrt.Cover("watchdogs-stopped")
	close(w.stop)
	verifrt.Quiesce()
	verifrt.Assert(w.exited, "C14 a worker can exit whatever the pause state")
}
