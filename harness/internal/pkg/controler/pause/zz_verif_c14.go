//go:build verif

package pause

import (
	"github.com/internetarchive/Zeno/internal/pkg/stats"
	"github.com/internetarchive/Zeno/internal/verifrt"
)

// c14Worker follows the protocol the stage workers implement: acknowledge a pause by sending on ResumeCh,
// take no work in between. It exits when told to (stop), unsubscribing on the way out as the workers do.
type c14Worker struct {
	chans    *ControlChans
	stop     chan struct{}
	work     chan int
	paused   bool // between receiving PauseCh and completing the send on ResumeCh
	tookWork int
	exited   bool
}

func c14Start() *c14Worker {
	w := &c14Worker{stop: make(chan struct{}), work: make(chan int, 4)}
	w.chans = Subscribe()
	verifrt.Go(func() {
		defer func() { w.exited = true }()
		defer Unsubscribe(w.chans)
		for {
			select {
			case <-w.stop:
				return
			case <-w.chans.PauseCh:
				w.paused = true
				verifrt.Settle() // native replay: a busy worker acknowledges a little later (every other try)
				verifrt.Settle()
				w.chans.ResumeCh <- struct{}{}
				w.paused = false
			case <-w.work:
				verifrt.Assert(!w.paused, "C14 a paused worker takes no work")
				w.tookWork++
			}
		}
	})
	return w
}

// VerifH_C14_protocol: every sequence of <=3 Pause/Resume calls (matched or not) returns, pauses every worker and wakes them all.
func VerifH_C14_protocol() { c14Protocol(3) }

// VerifH_C14_protocol4: the same with four controller calls (thorough tier).
func VerifH_C14_protocol4() { c14Protocol(4) }

func c14Protocol(nOps int) {
	_ = stats.Init() // native replay needs the stats singleton; the symbolic run stubs the stats package
	nw := 1 + verifrt.Choice("workers-1", 2)
	var ws []*c14Worker
	for i := 0; i < nw; i++ {
		ws = append(ws, c14Start())
	}
	paused := false
	for op := 0; op < nOps; op++ {
		switch verifrt.Choice("op", 3) {
		case 0:
			Pause("test")
			verifrt.Settle()
			paused = true
			verifrt.Assert(IsPaused(), "C14 Pause sets the paused flag")
		case 1:
			if !paused {
				verifrt.Cover("unmatched-resume")
			} else {
				verifrt.Cover("matched-resume")
			}
			Resume() // a hang here is a deadlock: reported by the engine
			verifrt.Settle()
			verifrt.Assert(!IsPaused(), "C14 after Resume the pipeline is not paused")
			paused = false
		case 2:
			for _, w := range ws {
				w.work <- op
			}
		}
	}
	if paused {
		Resume()
	}
	verifrt.Quiesce()
	for _, w := range ws {
		verifrt.Assert(!w.paused, "C14 resume wakes every worker")
	}
	// shut down: every worker exits
	for _, w := range ws {
		close(w.stop)
	}
	verifrt.Quiesce()
	for _, w := range ws {
		verifrt.Assert(w.exited, "C14 workers exit on stop")
	}
	verifrt.Cover("done")
}

// VerifH_C14_two_controllers: two independent controllers (disk and WARC watchdogs) each pausing and resuming.
func VerifH_C14_two_controllers() {
	_ = stats.Init()
	w := c14Start()
	done := make(chan struct{}, 2)
	ctl := func() {
		Pause("a")
		verifrt.Settle() // native replay: both controllers have asked for the pause before either resumes
		Resume()
		done <- struct{}{}
	}
	verifrt.Go(ctl)
	verifrt.Go(ctl)
	<-done
	<-done
	verifrt.Quiesce()
	verifrt.Assert(!w.paused, "C14 resume wakes every worker")
	verifrt.Cover("both-returned")
	close(w.stop)
	verifrt.Quiesce()
	verifrt.Assert(w.exited, "C14 workers exit on stop")
}
