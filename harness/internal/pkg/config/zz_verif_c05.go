//go:build verif

package config

import (
	"os"
	"path/filepath"

	"github.com/internetarchive/Zeno/internal/verifmodel"
	"github.com/internetarchive/Zeno/internal/verifrt"
)

// VerifH_C05_crawl_config: the scope settings the operator gave survive GenerateCrawlConfig: archive.org and
// archive-it.org are always among the excluded hosts, next to whatever --exclude-host lists; every pattern of
// every --exclusion-file is compiled and kept (one file or two); seencheck follows --disable-seencheck.
func VerifH_C05_crawl_config() {
	c := &Config{Job: "verif", UserAgent: "verif"}
	if verifrt.Choice("operator-excludes-a-host", 2) == 1 {
		c.ExcludeHosts = []string{"bad.example"}
	}
	c.DisableSeencheck = verifrt.Choice("disable-seencheck", 2) == 1
	files := [][]string{{"tracker"}, {"zzz-first", "lib.js"}}
	nFiles := verifrt.Choice("exclusion-files", 3)
	verifmodel.ExclusionFiles = map[string][]string{}
	dir := ""
	if !verifrt.Symbolic() {
		d, err := os.MkdirTemp("", "verif-c05-")
		if err != nil {
			panic(err)
		}
		defer os.RemoveAll(d)
		dir = d
	}
	var patterns []string
	for i := 0; i < nFiles; i++ {
		name := filepath.Join(dir, "excl"+string(rune('0'+i))+".txt")
		verifmodel.ExclusionFiles[name] = files[i]
		if !verifrt.Symbolic() {
			text := ""
			for _, p := range files[i] {
				text += p + "\n"
			}
			if err := os.WriteFile(name, []byte(text), 0o600); err != nil {
				panic(err)
			}
		}
		c.ExclusionFile = append(c.ExclusionFile, name)
		patterns = append(patterns, files[i]...)
	}
	config = c
	err := GenerateCrawlConfig()
	verifrt.Assert(err == nil, "C05 the crawl configuration is generated")
	has := func(list []string, s string) bool {
		for _, x := range list {
			if x == s {
				return true
			}
		}
		return false
	}
	verifrt.Assert(has(config.ExcludeHosts, "archive.org") && has(config.ExcludeHosts, "archive-it.org"), "C05 archive.org and archive-it.org are always excluded")
	if len(config.ExcludeHosts) > 2 {
		verifrt.Cover("operator-host-kept")
		verifrt.Assert(has(config.ExcludeHosts, "bad.example"), "C05 the operator's excluded hosts are kept")
	}
	if nFiles == 2 {
		verifrt.Cover("two-exclusion-files")
	}
	for _, p := range patterns {
		matched := false
		for _, re := range config.ExclusionRegexes {
			if re.MatchString("http://x.example/a/" + p + "/b") {
				matched = true
			}
		}
		verifrt.Assert(matched, "C05 every pattern of every exclusion file is in force")
	}
	verifrt.Assert(len(config.ExclusionRegexes) == len(patterns), "C05 the exclusion list holds the patterns of the files, nothing else")
	verifrt.Assert(config.UseSeencheck == !c.DisableSeencheck, "C05 seencheck follows --disable-seencheck")
}
