//go:build verif

package config

// VerifSet installs a configuration for a harness (the package has no setter outside InitConfig).
func VerifSet(c *Config) { config = c }
