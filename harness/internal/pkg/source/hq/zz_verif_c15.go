//go:build verif

package hq

import (
	"context"
	"encoding/json"
	"net/http"
	"net/http/httptest"
	"net/url"
	"sync"
	"time"

	"github.com/internetarchive/Zeno/internal/pkg/config"
	"github.com/internetarchive/Zeno/internal/pkg/log"
	"github.com/internetarchive/Zeno/internal/pkg/stats"
	"github.com/internetarchive/Zeno/internal/verifmodel"
	"github.com/internetarchive/Zeno/internal/verifrt"
	"github.com/internetarchive/Zeno/pkg/models"
	"github.com/internetarchive/gocrawlhq"
)

// VerifH_C15_hops_roundtrip: the hop count survives the trip through the queue's path encoding.
func VerifH_C15_hops_roundtrip() {
	h := int(verifrt.IntRange("hops", 0, 12))
	p := hopsToPath(h)
	verifrt.Assert(len(p) == h, "C15 path has one letter per hop")
	verifrt.Assert(pathToHops(p) == h, "C15 hop count survives the round trip")
	if h == 0 {
		verifrt.Cover("zero-hops")
	} else {
		verifrt.Cover("some-hops")
	}
	// a path coming back from HQ may carry other letters (R, E, ...): only L counts
	q := verifrt.String("path", 5)
	want := 0
	for i := 0; i < len(q); i++ {
		if q[i] == 'L' {
			want++
		}
	}
	verifrt.Assert(pathToHops(q) == want, "C15 hops of an arbitrary path = number of L")
}

// c15Server is the native stand-in for crawl HQ: it fails the calls the fault sequence says and records the rest.
type c15Server struct {
	mu      sync.Mutex
	faults  []bool
	timeout bool // failing calls get no answer at all (until the client gives up) instead of a 503
	calls   int
	added   [][]gocrawlhq.URL
	deleted [][]gocrawlhq.URL
	stall   chan struct{} // non-nil: no request is answered until it is closed
}

func (s *c15Server) ServeHTTP(w http.ResponseWriter, r *http.Request) {
	if s.stall != nil {
		<-s.stall
	}
	s.mu.Lock()
	defer s.mu.Unlock()
	i := s.calls
	s.calls++
	if i < len(s.faults) && s.faults[i] {
		if s.timeout {
			s.mu.Unlock()
			select {
			case <-r.Context().Done():
			case <-time.After(9 * time.Second):
			}
			s.mu.Lock()
			return
		}
		w.WriteHeader(503)
		return
	}
	if r.Method == http.MethodDelete {
		var p gocrawlhq.DeletePayload
		_ = json.NewDecoder(r.Body).Decode(&p)
		s.deleted = append(s.deleted, p.URLs)
		w.WriteHeader(204)
		return
	}
	var p gocrawlhq.AddPayload
	_ = json.NewDecoder(r.Body).Decode(&p)
	s.added = append(s.added, p.URLs)
	w.WriteHeader(201)
}

// VerifH_C15_producer: every outlink handed to the HQ producer reaches a SUCCESSFUL Add call exactly once with its
// text, via and hop count intact, whatever the batch fill level and however many Add calls fail first.
func VerifH_C15_producer() { c15Producer(false) }

// VerifH_C15_producer_timeout: the same when the failing calls are requests that crawl HQ never answers (they end with
// the client's timeout, or earlier if the caller put a deadline on the request's context): one or two outlinks, one
// or two unanswered calls.
func VerifH_C15_producer_timeout() { c15Producer(true) }

func c15Producer(timeouts bool) {
	_ = stats.Init()
	batchSize := 1 + verifrt.Choice("batchsize-1", 2)
	config.VerifSet(&config.Config{WorkersCount: 1, HQBatchSize: batchSize})
	nFaults := verifrt.Choice("faults", 3)
	if timeouts && nFaults == 0 {
		return
	}
	verifmodel.HQTimeout = timeouts
	faults := make([]bool, nFaults)
	for i := range faults {
		faults[i] = true // the first nFaults calls fail, then HQ recovers
	}
	client := &gocrawlhq.Client{Key: "k", Secret: "s", Project: "p"}
	var srv *c15Server
	if verifrt.Symbolic() {
		verifmodel.HQFaults = faults
	} else {
		srv = &c15Server{faults: faults, timeout: timeouts}
		ts := httptest.NewServer(srv)
		defer ts.Close()
		client.HTTPClient = ts.Client()
		if timeouts {
			client.HTTPClient.Timeout = 6 * time.Second // the crawler's HQ client is built with a timeout of a few seconds
		}
		client.URLsEndpoint, _ = url.Parse(ts.URL + "/urls")
	}
	ctx, cancel := context.WithCancel(context.Background())
	produce := make(chan *models.Item, 3)
	globalHQ = &hq{ctx: ctx, cancel: cancel, produceCh: produce, client: client}
	globalHQ.wg.Add(1)
	go producer()
	n := 1 + verifrt.Choice("items-1", 2)
	early := n
	if !timeouts {
		early = verifrt.Choice("items-before-first-timer", n+1) // how many outlinks arrive before the flush timer fires first
	}
	verifrt.Tag("[items=" + string(rune('0'+n)) + " before-timer=" + string(rune('0'+early)) + " failing-calls=" + string(rune('0'+nFaults)) + " batch=" + string(rune('0'+batchSize)) + "]")
	hops := make([]int, n)
	feed := func(i int) {
		hops[i] = i + 1 // (every hop count 0..12 goes through the path encoding in VerifH_C15_hops_roundtrip)
		it := models.NewItem("id"+string(rune('0'+i)), &models.URL{Raw: "http://o.example/" + string(rune('a'+i)), Hops: hops[i]}, "http://parent.example/")
		produce <- it
	}
	for i := 0; i < early; i++ {
		feed(i)
	}
	verifrt.Quiesce()   // everything fed so far has been picked up (the real ticker keeps firing; here firings are granted explicitly)
	verifrt.EnvTicks(1) // the flush timer fires: a batch that is not full goes out (and may be retried while more outlinks arrive)
	if !verifrt.Symbolic() && early > 0 && early < n {
		time.Sleep(5500 * time.Millisecond) // native: let the real 5 s timer flush the first part before the rest arrives
	}
	for i := early; i < n; i++ {
		feed(i)
	}
	verifrt.Quiesce()
	verifrt.EnvTicks(1)
	verifrt.Quiesce()
	if !verifrt.Symbolic() {
		// native: wait for the 5 s flush timer and the 1 s + 2 s back-off (and the client's timeout on unanswered calls)
		wait := 12 * time.Second
		if timeouts {
			wait += time.Duration(nFaults) * 7 * time.Second
		}
		deadline := time.Now().Add(wait)
		for time.Now().Before(deadline) {
			srv.mu.Lock()
			got := 0
			for _, b := range srv.added {
				got += len(b)
			}
			srv.mu.Unlock()
			if got >= n {
				break
			}
			time.Sleep(100 * time.Millisecond)
		}
	}
	var added [][]gocrawlhq.URL
	if verifrt.Symbolic() {
		added = verifmodel.HQAdded
	} else {
		srv.mu.Lock()
		added = srv.added
		srv.mu.Unlock()
	}
	if nFaults > 0 {
		verifrt.Cover("hq-failed-first")
	}
	if n%batchSize != 0 {
		verifrt.Cover("timer-flush")
	}
	if early > 0 && early < n && nFaults > 0 {
		verifrt.Cover("outlink-arrives-during-retry")
	}
	for i := 0; i < n; i++ {
		cnt := 0
		for _, b := range added {
			for _, u := range b {
				if u.Value == "http://o.example/"+string(rune('a'+i)) {
					cnt++
					verifrt.Assert(u.Via == "http://parent.example/", "C15 outlink keeps its parent page as via")
					verifrt.Assert(pathToHops(u.Path) == hops[i], "C15 outlink keeps its hop count")
				}
			}
		}
		// the scenario is part of the label so that each scenario's counterexample gets its own native replay
		verifrt.Assert(cnt == 1, "C15 every outlink reaches a successful HQ add exactly once despite HQ errors [items="+
			string(rune('0'+n))+" before-timer="+string(rune('0'+early))+" failing-calls="+string(rune('0'+nFaults))+" batch="+string(rune('0'+batchSize))+"]")
	}
	cancel()
	globalHQ.wg.Wait()
	verifrt.Cover("stopped")
}

// VerifH_C15_finisher: every finished seed handed to the HQ finisher is acknowledged by its id in a SUCCESSFUL delete
// call exactly once, whatever the batch fill level (batch size = workers count) and however many calls fail first
// (5xx answers or unanswered requests).
func VerifH_C15_finisher()  { c15Finisher(2) }
func VerifH_C15_finisher3() { c15Finisher(3) }

func c15Finisher(maxItems int) {
	_ = stats.Init()
	batchSize := 1 + verifrt.Choice("batchsize-1", 2)
	config.VerifSet(&config.Config{WorkersCount: batchSize})
	nFaults := verifrt.Choice("faults", 3)
	timeouts := nFaults > 0 && verifrt.Symbolic() && verifrt.Choice("unanswered", 2) == 1
	verifmodel.HQTimeout = timeouts
	faults := make([]bool, nFaults)
	for i := range faults {
		faults[i] = true
	}
	client := &gocrawlhq.Client{Key: "k", Secret: "s", Project: "p"}
	var srv *c15Server
	if verifrt.Symbolic() {
		verifmodel.HQFaults = faults
		verifmodel.HQCalls, verifmodel.HQDeleted = 0, nil
	} else {
		srv = &c15Server{faults: faults}
		ts := httptest.NewServer(srv)
		defer ts.Close()
		client.HTTPClient = ts.Client()
		client.URLsEndpoint, _ = url.Parse(ts.URL + "/urls")
	}
	ctx, cancel := context.WithCancel(context.Background())
	finish := make(chan *models.Item, 3)
	globalHQ = &hq{ctx: ctx, cancel: cancel, finishCh: finish, client: client}
	globalHQ.wg.Add(1)
	go finisher()
	n := 1 + verifrt.Choice("items-1", maxItems)
	early := verifrt.Choice("items-before-first-timer", n+1)
	tag := "[items=" + string(rune('0'+n)) + " before-timer=" + string(rune('0'+early)) + " failing-calls=" + string(rune('0'+nFaults)) + " batch=" + string(rune('0'+batchSize)) + "]"
	verifrt.Tag(tag)
	feed := func(i int) {
		u := &models.URL{Raw: "http://s.example/" + string(rune('a'+i))}
		_ = u.Parse()
		finish <- models.NewItem("id"+string(rune('0'+i)), u, "")
	}
	for i := 0; i < early; i++ {
		feed(i)
	}
	verifrt.Quiesce()
	verifrt.EnvTicks(1)
	if !verifrt.Symbolic() && early > 0 && early < n {
		time.Sleep(5500 * time.Millisecond)
	}
	for i := early; i < n; i++ {
		feed(i)
	}
	verifrt.Quiesce()
	verifrt.EnvTicks(1)
	verifrt.Quiesce()
	if !verifrt.Symbolic() {
		deadline := time.Now().Add(13 * time.Second)
		for time.Now().Before(deadline) {
			srv.mu.Lock()
			got := 0
			for _, b := range srv.deleted {
				got += len(b)
			}
			srv.mu.Unlock()
			if got >= n {
				break
			}
			time.Sleep(100 * time.Millisecond)
		}
	}
	var deleted [][]gocrawlhq.URL
	if verifrt.Symbolic() {
		deleted = verifmodel.HQDeleted
	} else {
		srv.mu.Lock()
		deleted = srv.deleted
		srv.mu.Unlock()
	}
	if nFaults > 0 {
		verifrt.Cover("hq-failed-first")
	}
	if timeouts {
		verifrt.Cover("hq-unanswered")
	}
	if n%batchSize != 0 {
		verifrt.Cover("timer-flush")
	}
	for i := 0; i < n; i++ {
		cnt := 0
		for _, b := range deleted {
			for _, u := range b {
				if u.ID == "id"+string(rune('0'+i)) {
					cnt++
					verifrt.Assert(u.Value == "http://s.example/"+string(rune('a'+i)), "C15 the acknowledgement carries the seed's URL")
				}
			}
		}
		verifrt.Assert(cnt == 1, "C15 every finished seed is acknowledged to HQ by its id exactly once despite HQ errors "+tag)
	}
	cancel()
	globalHQ.wg.Wait()
	verifrt.Cover("stopped")
}

// VerifH_C15_finisher_stalled: crawl HQ stops answering for a while (a request hangs), finished seeds keep
// arriving one by one and the 5 s timer keeps flushing them as non-full batches until the sender, the dispatcher and
// the hand-over channel are all occupied; then HQ answers again: every finished seed is still acknowledged by its id,
// exactly once - a stalled HQ delays the acknowledgements, it never drops them.
func VerifH_C15_finisher_stalled() {
	_ = stats.Init()
	config.VerifSet(&config.Config{WorkersCount: 2}) // batches of two, one sender
	client := &gocrawlhq.Client{Key: "k", Secret: "s", Project: "p"}
	var srv *c15Server
	stall := make(chan struct{})
	if verifrt.Symbolic() {
		verifmodel.HQFaults, verifmodel.HQTimeout = nil, false
		verifmodel.HQCalls, verifmodel.HQDeleted = 0, nil
		verifmodel.HQStall = stall
		defer func() { verifmodel.HQStall = nil }()
	} else {
		srv = &c15Server{stall: stall}
		ts := httptest.NewServer(srv)
		defer ts.Close()
		client.HTTPClient = ts.Client()
		client.URLsEndpoint, _ = url.Parse(ts.URL + "/urls")
	}
	ctx, cancel := context.WithCancel(context.Background())
	finish := make(chan *models.Item, 4)
	globalHQ = &hq{ctx: ctx, cancel: cancel, finishCh: finish, client: client}
	globalHQ.wg.Add(1)
	go finisher()
	n := 3 + verifrt.Choice("seeds-3", 2) // 3: everything just fits; 4: the fourth timer flush finds the hand-over channel full
	for i := 0; i < n; i++ {
		u := &models.URL{Raw: "http://s.example/" + string(rune('a'+i))}
		_ = u.Parse()
		finish <- models.NewItem("id"+string(rune('0'+i)), u, "")
		verifrt.Quiesce()
		verifrt.EnvTicksEach(1) // the 5 s timer flushes the non-full batch
		verifrt.Quiesce()
		if !verifrt.Symbolic() {
			time.Sleep(5500 * time.Millisecond)
		}
	}
	if n == 4 {
		verifrt.Cover("hand-over-channel-full")
	}
	close(stall) // crawl HQ answers again
	for round := 0; round < 3; round++ {
		verifrt.Quiesce()
		verifrt.EnvTicksEach(1)
		verifrt.Quiesce()
		if !verifrt.Symbolic() {
			time.Sleep(2 * time.Second)
		}
	}
	var deleted [][]gocrawlhq.URL
	if verifrt.Symbolic() {
		deleted = verifmodel.HQDeleted
	} else {
		srv.mu.Lock()
		deleted = srv.deleted
		srv.mu.Unlock()
	}
	for i := 0; i < n; i++ {
		cnt := 0
		for _, b := range deleted {
			for _, u := range b {
				if u.ID == "id"+string(rune('0'+i)) {
					cnt++
				}
			}
		}
		verifrt.Assert(cnt == 1, "C15 every finished seed is acknowledged to HQ by its id exactly once although HQ did not answer for a while")
	}
	cancel()
	globalHQ.wg.Wait()
	verifrt.Cover("stopped")
}

// VerifH_C08_hq: crawl-HQ seencheck. An asset or redirect target is marked seen only if HQ's answer omits the value
// that was sent for it; the seed is never sent nor marked; on an HQ error nothing is marked.
func VerifH_C08_hq() {
	raws := []string{"http://a.example/x", "http://b.example/y?q=a%20b&p=1"}
	client := &gocrawlhq.Client{Key: "k", Secret: "s", Project: "p"}
	unseen := make([]bool, 2)
	for i := range unseen {
		unseen[i] = verifrt.Choice("hq-says-unseen", 2) == 1
	}
	fail := verifrt.Choice("hq-fails", 2) == 1
	if verifrt.Symbolic() {
		verifmodel.HQUnseen = map[string]bool{}
		for i, r := range raws {
			verifmodel.HQUnseen[r] = unseen[i]
		}
		verifmodel.HQSeencheckErr = fail
	} else {
		ts := httptest.NewServer(http.HandlerFunc(func(w http.ResponseWriter, r *http.Request) {
			if fail {
				w.WriteHeader(503)
				return
			}
			var sent []gocrawlhq.URL
			_ = json.NewDecoder(r.Body).Decode(&sent)
			var out []gocrawlhq.URL
			for _, u := range sent {
				for i, raw := range raws {
					if u.Value == raw && unseen[i] {
						out = append(out, u)
					}
				}
			}
			if len(out) == 0 {
				w.WriteHeader(204)
				return
			}
			w.WriteHeader(200)
			_ = json.NewEncoder(w).Encode(out)
		}))
		defer ts.Close()
		client.HTTPClient = ts.Client()
		client.SeencheckEndpoint, _ = url.Parse(ts.URL + "/seencheck")
	}
	globalHQ = &hq{client: client}
	if !verifrt.Symbolic() {
		log.Start()
		logger = log.NewFieldedLogger(&log.Fields{"component": "hq"})
	}
	seed := models.NewItem("s", &models.URL{Raw: "http://page.example/"}, "")
	_ = seed.GetURL().Parse()
	n := 1 + verifrt.Choice("children-1", 2)
	var kids []*models.Item
	for i := 0; i < n; i++ {
		u := &models.URL{Raw: raws[i]}
		_ = u.Parse()
		c := models.NewItem("c"+string(rune('0'+i)), u, "")
		if err := seed.AddChild(c, models.ItemGotChildren); err != nil {
			panic(err)
		}
		kids = append(kids, c)
	}
	err := SeencheckItem(seed)
	verifrt.Assert(seed.GetStatus() == models.ItemGotChildren, "C08 HQ seencheck never marks the seed")
	if fail {
		verifrt.Cover("hq-error")
		verifrt.Assert(err != nil, "C08 an HQ error is reported")
		for _, c := range kids {
			verifrt.Assert(c.GetStatus() == models.ItemFresh, "C08 nothing is marked seen on an HQ error")
		}
		return
	}
	verifrt.Assert(err == nil, "C08 HQ seencheck succeeds")
	for i, c := range kids {
		if unseen[i] {
			verifrt.Cover("hq-unseen")
			verifrt.Assert(c.GetStatus() == models.ItemFresh, "C08 nothing is skipped as seen unless crawl HQ reported it as seen")
		} else {
			verifrt.Cover("hq-seen")
			verifrt.Assert(c.GetStatus() == models.ItemSeen, "C08 a URL crawl HQ has seen is skipped")
		}
	}
}
