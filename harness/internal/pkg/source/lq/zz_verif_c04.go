//go:build verif

package lq

import (
	"context"
	"os"
	"sync"

	"github.com/internetarchive/Zeno/internal/pkg/config"
	"github.com/internetarchive/Zeno/internal/pkg/log"
	"github.com/internetarchive/Zeno/internal/pkg/reactor"
	"github.com/internetarchive/Zeno/internal/pkg/source/lq/sqlc_model"
	"github.com/internetarchive/Zeno/internal/pkg/stats"
	"github.com/internetarchive/Zeno/internal/verifmodel"
	"github.com/internetarchive/Zeno/internal/verifrt"
	"github.com/internetarchive/Zeno/pkg/models"
)

// c04Drain reads what the reactor hands out until nothing more comes (time passes between the rounds).
func c04Drain(out chan *models.Item, rounds int, each func(*models.Item)) {
	for r := 0; r < rounds; r++ {
		verifrt.Quiesce()
		verifrt.WakeSleepers() // the queue's polling loop looks again
		verifrt.Quiesce()
		for len(out) > 0 {
			each(<-out)
		}
	}
}

// c04Start is lq.Start without the outlink producer (three goroutines and a ticker the scenario does not need).
func c04Start(finishCh, produceCh chan *models.Item) error {
	log.Start()
	logger = log.NewFieldedLogger(&log.Fields{"component": "lq"})
	ctx, cancel := context.WithCancel(context.Background())
	client, err := Init(config.Get().Job)
	if err != nil {
		cancel()
		return err
	}
	globalLQ = &lq{ctx: ctx, cancel: cancel, finishCh: finishCh, produceCh: produceCh, client: client}
	globalLQ.wg.Add(2)
	go consumer()
	go finisher()
	return nil
}

// VerifH_C04_resume: a job on the local persistent queue is stopped - gracefully, or killed - at an arbitrary point
// (some URLs still waiting, some handed out and in flight, some finished) and started again on the same database:
// every URL that had not been reported finished is handed out again by the second run, exactly once.
// The database is the table model of verifmodel/lqdb.go in the symbolic run and a real SQLite file in the native replay.
func VerifH_C04_resume() { c04Resume(2) }

// VerifH_C04_resume3: the same with two or three URLs waiting (thorough tier).
func VerifH_C04_resume3() { c04Resume(3) }

func c04Resume(maxURLs int) {
	_ = stats.Init()
	workers := 1 + verifrt.Choice("workers-1", 2) // batch size of the queue's consumer
	tokens := 1 + verifrt.Choice("tokens-1", 2)
	cfg := &config.Config{WorkersCount: workers, Job: "verif"}
	if !verifrt.Symbolic() {
		d, err := os.MkdirTemp("", "verif-c04-")
		if err != nil {
			panic(err)
		}
		defer os.RemoveAll(d)
		cfg.JobPath = d
	}
	config.VerifSet(cfg)
	verifmodel.LQTable = nil
	once = sync.Once{}

	// ---- first run ----
	out1 := make(chan *models.Item, 4)
	must := func(err error) {
		if err != nil {
			panic(err)
		}
	}
	must(reactor.Start(tokens, out1))
	finish1 := make(chan *models.Item, 4)
	produce1 := make(chan *models.Item, 4)
	must(c04Start(finish1, produce1))
	n := 2 + verifrt.Choice("urls-2", maxURLs-1)
	var urls []sqlc_model.Url
	for i := 0; i < n; i++ {
		urls = append(urls, sqlc_model.Url{ID: "id" + string(rune('0'+i)), Value: "http://q.example/" + string(rune('a'+i))})
	}
	finished := map[string]bool{}
	if verifrt.Choice("first-row-is-not-a-url", 2) == 1 {
		// a row the consumer cannot turn into a request: the queue itself reports it finished (and only it)
		urls[0].Value = "q.example/not-a-request-uri"
		finished[urls[0].ID] = true
		verifrt.Cover("unparsable-row")
	}
	must(globalLQ.client.Add(context.TODO(), urls, false))
	handed1 := map[string]int{}
	want := verifrt.Choice("handed-out-before-the-stop", n+1)
	inFlight := 0
	c04Drain(out1, 2, func(it *models.Item) {
		handed1[it.GetID()]++
		if len(handed1) <= want && verifrt.Choice("finished", 2) == 1 {
			// what the pipeline's finisher does with a completed seed
			must(reactor.MarkAsFinished(it))
			finish1 <- it
			finished[it.GetID()] = true
		} else {
			inFlight++
		}
	})
	if verifrt.Choice("ack-timer-fires", 2) == 1 {
		verifrt.Quiesce()
		verifrt.EnvTicks(1)
		verifrt.Quiesce()
	}
	for id, c := range handed1 {
		verifrt.Assert(c == 1, "C04 no URL is handed out twice in one run")
		_ = id
	}
	if inFlight > 0 {
		verifrt.Cover("in-flight-at-stop")
	}
	if len(finished) > 0 {
		verifrt.Cover("finished-before-stop")
	}
	how := "graceful stop"
	if verifrt.Choice("killed", 2) == 1 {
		how = "kill"
		// kill: nothing of the shutdown path runs; the goroutines just go away (no database write happens after this)
		verifrt.Cover("killed")
		verifrt.Tag("[killed]")
		reactor.Freeze() // (only so that the emulation below can wait for the goroutines; it writes nothing)
		globalLQ.cancel()
		globalLQ.wg.Wait()
		once = sync.Once{}
		reactor.Stop()
	} else {
		// graceful stop, in the order of controler.stopPipeline
		verifrt.Cover("stopped-gracefully")
		verifrt.Tag("[graceful stop]")
		reactor.Freeze()
		if verifrt.Choice("stages-take-time-to-stop", 2) == 1 {
			// controler.stopPipeline stops the four stages between the freeze and the queue's Stop: the queue's
			// goroutines go on running meanwhile
			verifrt.Quiesce()
			verifrt.Cover("time-between-freeze-and-stop")
		}
		Stop()
		reactor.Stop()
	}

	// ---- second run on the same database ----
	out2 := make(chan *models.Item, 4)
	must(reactor.Start(4, out2))
	finish2 := make(chan *models.Item, 8)
	produce2 := make(chan *models.Item, 4)
	must(c04Start(finish2, produce2))
	handed2 := map[string]int{}
	c04Drain(out2, 3, func(it *models.Item) {
		handed2[it.GetID()]++
		must(reactor.MarkAsFinished(it))
		finish2 <- it
	})
	for i := 0; i < n; i++ {
		id := urls[i].ID
		if !finished[id] {
			verifrt.Cover("unfinished-url")
			verifrt.Assert(handed2[id] == 1, "C04 a URL not reported finished before the "+how+" is crawled again after the restart")
		} else {
			verifrt.Assert(handed2[id] <= 1, "C04 no URL is handed out twice in one run")
			if urls[i].Value == "q.example/not-a-request-uri" {
				verifrt.Assert(handed1[id] == 0 && handed2[id] == 0, "C04 a row that is not a URL is never handed out")
			}
		}
	}
	reactor.Freeze()
	Stop()
	reactor.Stop()
	verifrt.Cover("second-run-stopped")
}
