//go:build verif

package lq

import (
	"context"
	"os"
	"sync"
	"time"

	"github.com/internetarchive/Zeno/internal/pkg/config"
	"github.com/internetarchive/Zeno/internal/pkg/reactor"
	"github.com/internetarchive/Zeno/internal/pkg/stats"
	"github.com/internetarchive/Zeno/internal/verifmodel"
	"github.com/internetarchive/Zeno/internal/verifrt"
	"github.com/internetarchive/Zeno/pkg/models"
)

// VerifH_C15_lq: the local queue end to end (real producer, consumer and finisher goroutines; table model of the
// database, real SQLite natively): every outlink handed to the queue is stored once with its text, its parent page as
// via and its hop count - a URL already waiting is not queued twice -, comes back out as a seed with the same three
// values, and is removed from the queue by its id once it has been reported finished.
func VerifH_C15_lq() {
	_ = stats.Init()
	cfg := &config.Config{WorkersCount: 1 + verifrt.Choice("workers-1", 2), Job: "verif"}
	if !verifrt.Symbolic() {
		d, err := os.MkdirTemp("", "verif-c15-")
		if err != nil {
			panic(err)
		}
		defer os.RemoveAll(d)
		cfg.JobPath = d
	}
	config.VerifSet(cfg)
	verifmodel.LQTable = nil
	once = sync.Once{}
	must := func(err error) {
		if err != nil {
			panic(err)
		}
	}
	out := make(chan *models.Item, 4)
	must(reactor.Start(4, out))
	finishCh := make(chan *models.Item, 4)
	produceCh := make(chan *models.Item, 4)
	must(Start(finishCh, produceCh))

	n := 1 + verifrt.Choice("outlinks-1", 3)
	dup := n >= 2 && verifrt.Choice("second-is-a-duplicate", 2) == 1 // (a third outlink, if any, is new again)
	type want struct {
		raw, via string
		hops     int
	}
	var wants []want
	for i := 0; i < n; i++ {
		w := want{raw: "http://o.example/" + string(rune('a'+i)), via: "http://parent.example/p" + string(rune('0'+i)), hops: int(verifrt.IntRange("hops", 0, 3))}
		if dup && i == 1 {
			w.raw = wants[0].raw // found again on another page
		}
		it := models.NewItem("out"+string(rune('0'+i)), &models.URL{Raw: w.raw, Hops: w.hops}, w.via)
		produceCh <- it
		if !(dup && i == 1) {
			wants = append(wants, w)
		}
		if n < 3 && verifrt.Choice("flush-between", 2) == 1 { // (three outlinks always travel in one batch)
			verifrt.Quiesce()
			verifrt.EnvTicksEach(1) // the 5 s flush timers fire between the two outlinks
			if !verifrt.Symbolic() {
				time.Sleep(5500 * time.Millisecond)
			}
		}
	}
	if dup {
		verifrt.Cover("duplicate-outlink")
		if n == 3 {
			verifrt.Cover("new-outlink-after-duplicate")
		}
	}
	// time passes: the flush timers fire, the queue's polling loop looks again, and the seeds come out of the reactor
	got := map[string]*models.Item{}
	count := map[string]int{}
	for round := 0; round < 3; round++ {
		verifrt.Quiesce()
		verifrt.EnvTicksEach(1)
		verifrt.Quiesce()
		verifrt.WakeSleepers()
		verifrt.Quiesce()
		if !verifrt.Symbolic() {
			time.Sleep(2 * time.Second)
		}
		for len(out) > 0 {
			s := <-out
			got[s.GetURL().Raw] = s
			count[s.GetURL().Raw]++
		}
	}
	for _, w := range wants {
		s := got[w.raw]
		verifrt.Assert(s != nil && count[w.raw] == 1, "C15 every outlink handed to the local queue comes back as a seed exactly once (a URL already waiting is not queued twice)")
		if s != nil {
			verifrt.Cover("round-trip")
			verifrt.Assert(s.GetSeedVia() == w.via, "C15 outlink keeps its parent page as via")
			verifrt.Assert(s.GetURL().GetHops() == w.hops, "C15 outlink keeps its hop count")
			verifrt.Assert(s.IsSeed() && s.GetStatus() == models.ItemFresh, "C15 the queue hands out fresh seeds")
		}
	}
	verifrt.Assert(len(got) == len(wants), "C15 nothing but the queued URLs comes out of the queue")
	// every finished seed is acknowledged by its id: its row leaves the queue
	for _, s := range got {
		must(reactor.MarkAsFinished(s))
		finishCh <- s
	}
	for round := 0; round < 2; round++ {
		verifrt.Quiesce()
		verifrt.EnvTicksEach(1)
		verifrt.Quiesce()
		if !verifrt.Symbolic() {
			time.Sleep(3 * time.Second)
		}
	}
	left := 0
	if verifrt.Symbolic() {
		left = len(verifmodel.LQTable)
	} else {
		rows, err := globalLQ.client.dbWrite.Query("SELECT id FROM urls")
		must(err)
		for rows.Next() {
			left++
		}
		rows.Close()
	}
	verifrt.Assert(left == 0, "C15 every finished seed is acknowledged to the local queue by its id (its row is removed)")
	reactor.Freeze()
	Stop()
	reactor.Stop()
	verifrt.Cover("stopped")
	_ = context.Background
}
