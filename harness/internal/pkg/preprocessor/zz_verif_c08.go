//go:build verif

package preprocessor

import (
	"github.com/internetarchive/Zeno/internal/pkg/config"
	"github.com/internetarchive/Zeno/internal/verifrt"
	"github.com/internetarchive/Zeno/pkg/models"
)

// VerifH_C08_preprocess: the seencheck step where the preprocessor applies it. A first page records an arbitrary
// subset of three asset URLs; a second page embeds all three: exactly the recorded ones are skipped (marked seen, no
// request) - wherever they sit in the level, also next to each other - and the others are prepared for fetching.
func VerifH_C08_preprocess() {
	cfg := &config.Config{UserAgent: "verif", UseSeencheck: true, ExcludeHosts: []string{"archive.org", "archive-it.org"}}
	defer c05Env(cfg)()
	raws := []string{c05Table[0].raw, c05Table[14].raw, c05Table[13].raw} // plain, quoted, scheme-relative
	page := func(id string, which []bool) (*models.Item, []*models.Item) {
		seed := models.NewItem(id, &models.URL{Raw: c05Parent}, "")
		if err := seed.GetURL().Parse(); err != nil {
			panic(err)
		}
		kids := make([]*models.Item, len(raws))
		for i, r := range raws {
			if !which[i] {
				continue
			}
			kids[i] = models.NewItem(id+"-c"+string(rune('0'+i)), &models.URL{Raw: r}, "")
			if err := seed.AddChild(kids[i], models.ItemGotChildren); err != nil {
				panic(err)
			}
		}
		return seed, kids
	}
	recorded := make([]bool, len(raws))
	any := false
	for i := range recorded {
		recorded[i] = verifrt.Choice("seen-before", 2) == 1
		any = any || recorded[i]
	}
	if any {
		first, kids1 := page("p1", recorded)
		preprocess("w", first)
		for i, k := range kids1 {
			if k != nil {
				verifrt.Assert(k.GetStatus() == models.ItemPreProcessed, "C08 nothing is skipped unless the store reported it as seen")
				_ = i
			}
		}
	}
	second, kids2 := page("p2", []bool{true, true, true})
	preprocess("w", second)
	adjacent := false
	for i, k := range kids2 {
		if recorded[i] {
			verifrt.Cover("seen-asset")
			verifrt.Assert(k.GetStatus() == models.ItemSeen && k.GetURL().GetRequest() == nil, "C08 a URL recorded as seen is skipped, not fetched again")
			if i > 0 && recorded[i-1] {
				adjacent = true
			}
		} else {
			verifrt.Cover("new-asset")
			verifrt.Assert(k.GetStatus() == models.ItemPreProcessed && k.GetURL().GetRequest() != nil, "C08 nothing is skipped unless the store reported it as seen")
		}
	}
	if adjacent {
		verifrt.Cover("two-seen-assets-in-a-row")
	}
}
