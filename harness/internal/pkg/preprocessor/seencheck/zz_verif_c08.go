//go:build verif

package seencheck

import (
	"hash/fnv"
	"os"
	"strconv"

	"github.com/internetarchive/Zeno/internal/verifmodel"
	"github.com/internetarchive/Zeno/internal/verifrt"
	"github.com/internetarchive/Zeno/pkg/models"
)

func c08Key(u string) string {
	h := fnv.New64a()
	h.Write([]byte(u))
	return strconv.FormatUint(h.Sum64(), 10)
}

func c08URL(raw string) *models.URL {
	u := &models.URL{Raw: raw}
	if err := u.Parse(); err != nil {
		panic(err)
	}
	return u
}

// VerifH_C08_local: the local seen-store. For every prior record state of two URLs (absent / seen as seed / seen as
// asset) and every kind of item (seed, redirect target, asset), an item is skipped exactly when the store says it was
// seen - except a seed or redirect target only seen as an asset - and afterwards the store remembers it, so that the
// same URL checked later is skipped.
func VerifH_C08_local() {
	urls := []string{"http://a.example/x", "http://b.example/y"}
	states := []string{"", "seed", "asset"}
	var cleanup func()
	if verifrt.Symbolic() {
		verifmodel.SeenStore = map[string]string{}
		_ = Start("/nonexistent")
	} else {
		d, err := os.MkdirTemp("", "verif-c08-")
		if err != nil {
			panic(err)
		}
		if err := Start(d); err != nil {
			panic(err)
		}
		cleanup = func() { Close(); os.RemoveAll(d) }
		defer cleanup()
	}
	prior := make([]string, len(urls))
	for i, u := range urls {
		prior[i] = states[verifrt.Choice("recorded-as", 3)]
		if prior[i] != "" {
			globalSeencheck.DB.Set(c08Key(u), prior[i])
		}
	}
	// the tree: a lone seed, a page with 1-2 assets, or a page with a redirect target
	shape := verifrt.Choice("shape", 3)
	var root *models.Item
	var work []*models.Item
	var isAsset []bool
	switch shape {
	case 0:
		root = models.NewItem("s", c08URL(urls[0]), "")
		work, isAsset = []*models.Item{root}, []bool{false}
	case 1:
		root = models.NewItem("s", c08URL("http://page.example/"), "")
		n := 1 + verifrt.Choice("assets-1", 2)
		for i := 0; i < n; i++ {
			c := models.NewItem("c"+string(rune('0'+i)), c08URL(urls[i]), "")
			if err := root.AddChild(c, models.ItemGotChildren); err != nil {
				panic(err)
			}
			work, isAsset = append(work, c), append(isAsset, true)
		}
	default:
		root = models.NewItem("s", c08URL("http://page.example/"), "")
		c := models.NewItem("r", c08URL(urls[0]), "")
		if err := root.AddChild(c, models.ItemGotRedirected); err != nil {
			panic(err)
		}
		work, isAsset = []*models.Item{c}, []bool{false}
	}
	err := SeencheckItem(root)
	verifrt.Assert(err == nil, "C08 local seencheck succeeds")
	for i, it := range work {
		wantSkip := prior[i] != "" && !(prior[i] == "asset" && !isAsset[i])
		if wantSkip {
			verifrt.Cover("skipped")
			verifrt.Assert(it.GetStatus() == models.ItemSeen, "C08 a URL recorded as seen is skipped")
		} else {
			verifrt.Cover("fetched")
			verifrt.Assert(it.GetStatus() == models.ItemFresh, "C08 nothing is skipped unless the store reported it as seen")
		}
		if prior[i] == "asset" && !isAsset[i] {
			verifrt.Cover("promotion")
		}
		var val string
		found, _ := globalSeencheck.DB.Get(c08Key(it.GetURL().String()), &val)
		wantVal := prior[i]
		if prior[i] == "" {
			wantVal = "asset"
			if !isAsset[i] {
				wantVal = "seed"
			}
		} else if prior[i] == "asset" && !isAsset[i] {
			wantVal = "seed"
		}
		verifrt.Assert(found && val == wantVal, "C08 the store records the URL (with the promoted kind)")
	}
	if root != work[0] {
		verifrt.Assert(root.GetStatus() != models.ItemSeen, "C08 only working-depth items are touched")
	}
	// checked afterwards: the same URL as an asset of another page is now skipped
	page2 := models.NewItem("s2", c08URL("http://page2.example/"), "")
	again := models.NewItem("again", c08URL(urls[0]), "")
	if err := page2.AddChild(again, models.ItemGotChildren); err != nil {
		panic(err)
	}
	_ = SeencheckItem(page2)
	verifrt.Assert(again.GetStatus() == models.ItemSeen, "C08 once recorded, the same URL checked afterwards is skipped")
}
