//go:build verif

package preprocessor

import (
	"github.com/internetarchive/Zeno/internal/pkg/config"
	"github.com/internetarchive/Zeno/internal/pkg/controler/pause"
	"github.com/internetarchive/Zeno/internal/pkg/stats"
	"github.com/internetarchive/Zeno/internal/verifrt"
	"github.com/internetarchive/Zeno/pkg/models"
)

// VerifH_C03_preprocessor_stop: the real Start/Stop and worker loops of this stage: Stop returns whatever the stage is doing -
// idle, holding a seed nobody downstream reads, or paused - for 1-2 workers and every interleaving within the bound.
func VerifH_C03_preprocessor_stop() {
	_ = stats.Init() // native replay needs the stats singleton; the symbolic run stubs the stats package
	config.VerifSet(&config.Config{WorkersCount: 1 + verifrt.Choice("workers-1", 2)})
	in := make(chan *models.Item, 1)
	out := make(chan *models.Item, verifrt.Choice("downstream-capacity", 2)) // 0: nobody takes the seed
	late := false
	err := Start(in, out)
	verifrt.Assert(err == nil, "C03 stage starts")
	verifrt.Quiesce()
	// (a seed is not injected here: the preprocessor's payload needs the URL normaliser, which is outside this check)
	switch verifrt.Choice("pause", 3) {
	case 1:
		pause.Pause("verif")
		verifrt.Settle()
		verifrt.Cover("stop-while-paused")
		verifrt.Quiesce() // every worker has seen the pause and waits to acknowledge it
		in <- models.NewItem("late", &models.URL{Raw: "http://x.example/late"}, "") // work arrives while the stage is paused
		late = true
		verifrt.Cover("work-arrives-while-paused")
	case 2:
		pause.Pause("verif")
		verifrt.Settle()
		pause.Resume()
		verifrt.Settle()
	}
	Stop() // a hang is reported by the engine as a deadlock
	verifrt.Cover("stopped")
	if late {
		verifrt.Assert(len(in) == 1, "C14 a paused worker takes no work, also when its stage is stopped while paused")
	}
}

// VerifH_C17_preprocessor_gauge: the worker gauge of this stage equals the number of live workers and is zero after stop,
// on every exit path of the worker loop (stopped idle or while paused) and for every interleaving.
func VerifH_C17_preprocessor_gauge() {
	_ = stats.Init()
	n := 1 + verifrt.Choice("workers-1", 2)
	config.VerifSet(&config.Config{WorkersCount: n})
	in := make(chan *models.Item, 1)
	out := make(chan *models.Item, 1)
	before := c17Gauge()
	err := Start(in, out)
	verifrt.Assert(err == nil, "C17 stage starts")
	verifrt.Quiesce()
	verifrt.Assert(c17Gauge() == before+uint64(n), "C17 worker gauge equals the number of live workers")
	if verifrt.Choice("pause", 2) == 1 {
		pause.Pause("verif")
		verifrt.Settle()
		verifrt.Cover("stopped-while-paused")
	}
	Stop()
	verifrt.Cover("stopped")
	verifrt.Assert(c17Gauge() == before, "C17 worker gauge is back to zero after stop")
}

func c17Gauge() uint64 { return stats.PreprocessorRoutinesGet() }
