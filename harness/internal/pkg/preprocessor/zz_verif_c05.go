//go:build verif

package preprocessor

import (
	"os"
	"regexp"

	"github.com/internetarchive/Zeno/internal/pkg/config"
	"github.com/internetarchive/Zeno/internal/pkg/preprocessor/seencheck"
	"github.com/internetarchive/Zeno/internal/pkg/stats"
	"github.com/internetarchive/Zeno/internal/verifmodel"
	"github.com/internetarchive/Zeno/internal/verifrt"
	"github.com/internetarchive/Zeno/pkg/models"
)

// c05U is one concrete URL text with the facts the scope rules look at (what ada reports for it).
type c05U struct {
	raw      string // as found in a page (may be relative, quoted, with fragment)
	canon    string // canonical form (empty: cannot be normalised)
	host     string
	okScheme bool
	okHost   bool
	relative bool
	port     string
	req      string // the text of the request (URL.String(): query re-encoded); empty = same as canon
}

func (u c05U) reqText() string {
	if u.req != "" {
		return u.req
	}
	return u.canon
}

const c05Parent = "http://site.example/dir/page"

var c05Table = []c05U{
	{raw: "http://good.example/a", canon: "http://good.example/a", host: "good.example", okScheme: true, okHost: true},
	{raw: "https://web.archive.org/x", canon: "https://web.archive.org/x", host: "web.archive.org", okScheme: true, okHost: true},
	{raw: "ftp://files.example/f", canon: "", host: "files.example", okScheme: false, okHost: true},
	{raw: "http://localhost/x", canon: "", host: "localhost", okScheme: true, okHost: false},
	{raw: "http://nodot/x", canon: "", host: "nodot", okScheme: true, okHost: false},
	{raw: "http://bad.example/skip-me", canon: "http://bad.example/skip-me", host: "bad.example", okScheme: true, okHost: true},
	{raw: "\"http://inc.example/y\"", canon: "http://inc.example/y", host: "inc.example", okScheme: true, okHost: true},
	{raw: "http://good.example/a#frag", canon: "http://good.example/a", host: "good.example", okScheme: true, okHost: true},
	{raw: "/rel/p.png", canon: "http://site.example/rel/p.png", host: "site.example", okScheme: true, okHost: true, relative: true},
	{raw: "http://127.0.0.1/x", canon: "", host: "127.0.0.1", okScheme: true, okHost: false},
	{raw: "http://127.0.0.1:8080/admin", canon: "", host: "127.0.0.1", port: ":8080", okScheme: true, okHost: false},
	{raw: "http://localhost:9200/_cat", canon: "", host: "localhost", port: ":9200", okScheme: true, okHost: false},
	{raw: "HTTP://Good.Example/Up", canon: "http://good.example/Up", host: "good.example", okScheme: true, okHost: true},
	{raw: "//cdn.example/lib.js", canon: "http://cdn.example/lib.js", host: "cdn.example", okScheme: true, okHost: true, relative: true},
	{raw: "'http://good.example/q'", canon: "http://good.example/q", host: "good.example", okScheme: true, okHost: true},
	{raw: "/share?u=http://w.example/a", canon: "http://site.example/share?u=http://w.example/a", req: "http://site.example/share?u=http%3A%2F%2Fw.example%2Fa",
		host: "site.example", okScheme: true, okHost: true, relative: true},
}

func c05RegisterAda() {
	for _, u := range c05Table {
		raw := u.raw
		if len(raw) > 1 && (raw[0] == '"' || raw[0] == '\'') {
			raw = raw[1 : len(raw)-1]
		}
		proto := "http:"
		if len(raw) >= 5 && raw[:5] == "https" {
			proto = "https:"
		}
		if len(raw) >= 3 && raw[:3] == "ftp" {
			proto = "ftp:"
		}
		href := u.canon
		if href == "" {
			href = raw
		}
		withFr := href
		if len(raw) > 5 && raw[len(raw)-5:] == "#frag" {
			withFr = href + "#frag"
		}
		o := verifmodel.AdaOutcome{Protocol: proto, Hostname: u.host, Host: u.host + u.port, Href: href, HrefWithFr: withFr}
		if raw == "HTTP://Good.Example/Up" {
			raw = "http://Good.Example/Up" // NormalizeURL hands ada the text net/url re-serialised (scheme lower-cased)
		}
		if u.relative {
			verifmodel.AdaTable[raw+"|http://site.example"] = o
			verifmodel.AdaTable[raw+"|"+c05Parent] = o
		} else {
			verifmodel.AdaTable[raw] = o
		}
	}
	verifmodel.AdaTable["http://site.example/"] = verifmodel.AdaOutcome{Protocol: "http:", Hostname: "site.example", Href: "http://site.example/", HrefWithFr: "http://site.example/"}
}

func c05Has(s, sub string) bool {
	for i := 0; i+len(sub) <= len(s); i++ {
		if s[i:i+len(sub)] == sub {
			return true
		}
	}
	return false
}

func c05Any(s string, list []string) bool {
	for _, e := range list {
		if c05Has(s, e) {
			return true
		}
	}
	return false
}

// c05InScope is the operator's scope, written from the statement.
func c05InScope(u c05U, cfg *config.Config) bool {
	if !u.okScheme || !u.okHost || u.canon == "" {
		return false
	}
	// "matches the text" = the text of the URL that would be requested
	if c05Any(u.host, cfg.ExcludeHosts) || c05Any(u.reqText(), cfg.ExcludeString) || c05Any(u.reqText(), c05Regexes) {
		return false
	}
	if len(cfg.IncludeHosts) > 0 || len(cfg.IncludeString) > 0 {
		return c05Any(u.host, cfg.IncludeHosts) || c05Any(u.reqText(), cfg.IncludeString)
	}
	return true
}

var c05Regexes []string // the literal patterns of the exclusion file

func c05Config() *config.Config {
	cfg := &config.Config{UserAgent: "verif", UseSeencheck: verifrt.Choice("disable-seencheck", 2) == 0}
	if !cfg.UseSeencheck {
		verifrt.Cover("seencheck-disabled")
	}
	// what GenerateCrawlConfig leaves in ExcludeHosts: the operator's hosts plus the two built-in ones
	if verifrt.Choice("exclude-host", 2) == 1 {
		cfg.ExcludeHosts = append(cfg.ExcludeHosts, "bad.example")
	}
	cfg.ExcludeHosts = append(cfg.ExcludeHosts, "archive.org", "archive-it.org")
	switch verifrt.Choice("exclude-string", 3) {
	case 1:
		cfg.ExcludeString = []string{"skip-me"}
	case 2:
		cfg.ExcludeString = []string{"u=http%3A"} // matches only the re-encoded request text
	}
	// the exclusion file: literal patterns (the symbolic run models a literal regular expression as substring search)
	c05Regexes = nil
	switch verifrt.Choice("exclusion-file", 3) {
	case 1:
		c05Regexes = []string{"/rel/"}
	case 2:
		c05Regexes = []string{"zzz-nomatch", "lib.js"} // ('.' also matches itself: same result on this table either way)
	}
	for _, p := range c05Regexes {
		cfg.ExclusionRegexes = append(cfg.ExclusionRegexes, regexp.MustCompile(p))
	}
	if verifrt.Choice("include-host", 2) == 1 {
		cfg.IncludeHosts = []string{"inc.example"}
	}
	if verifrt.Choice("include-string", 2) == 1 {
		cfg.IncludeString = []string{"good"}
	}
	return cfg
}

func c05Env(cfg *config.Config) func() {
	_ = stats.Init()
	config.VerifSet(cfg)
	c05RegisterAda()
	if !cfg.UseSeencheck {
		return func() {} // --disable-seencheck: the pipeline does not open the seen-store
	}
	if verifrt.Symbolic() {
		verifmodel.SeenStore = map[string]string{}
		_ = seencheck.Start("/nonexistent") // store calls are modelled
		return func() {}
	}
	d, err := os.MkdirTemp("", "verif-c05-")
	if err != nil {
		panic(err)
	}
	if err := seencheck.Start(d); err != nil {
		panic(err)
	}
	return func() { seencheck.Close(); os.RemoveAll(d) }
}

// VerifH_C05_children: embedded assets and redirect targets of an in-scope page: only in-scope URLs get a request,
// everything else is removed from the tree, for every combination of include/exclude filters.
func VerifH_C05_children() {
	cfg := c05Config()
	defer c05Env(cfg)()
	seed := models.NewItem("seed", &models.URL{Raw: c05Parent}, "")
	if err := seed.GetURL().Parse(); err != nil {
		panic(err)
	}
	asRedirect := verifrt.Choice("child-is-redirect-target", 2) == 1
	n := 1
	if !asRedirect {
		n = 1 + verifrt.Choice("children-1", 2)
	}
	idx := make([]int, n)
	kids := make([]*models.Item, n)
	for i := 0; i < n; i++ {
		idx[i] = verifrt.Choice("url", len(c05Table))
		kids[i] = models.NewItem("c"+string(rune('0'+i)), &models.URL{Raw: c05Table[idx[i]].raw}, "")
		from := models.ItemGotChildren
		if asRedirect {
			from = models.ItemGotRedirected
		}
		if err := seed.AddChild(kids[i], from); err != nil {
			panic(err)
		}
	}
	preprocess("w", seed)
	present := seed.GetChildren()
	for i := 0; i < n; i++ {
		u := c05Table[idx[i]]
		in := c05InScope(u, cfg)
		isPresent := false
		for _, p := range present {
			if p == kids[i] {
				isPresent = true
			}
		}
		dup := i == 1 && c05Table[idx[0]].reqText() == u.reqText() && u.canon != ""
		if !in {
			verifrt.Cover("out-of-scope-child")
			verifrt.Assert(!isPresent, "C05 an out-of-scope asset or redirect target is dropped")
			verifrt.Assert(kids[i].GetURL().GetRequest() == nil, "C05 no request is built for an out-of-scope URL")
		} else if !dup {
			verifrt.Cover("in-scope-child")
			verifrt.Assert(isPresent && kids[i].GetStatus() == models.ItemPreProcessed, "C05 an in-scope child is prepared for fetching")
			req := kids[i].GetURL().GetRequest()
			verifrt.Assert(req != nil && req.URL.String() == u.reqText(), "C05 the request goes to the canonical URL the filters looked at")
		}
	}
	for _, p := range present {
		if p.GetURL().GetRequest() != nil {
			ok := false
			for i := 0; i < n; i++ {
				if p == kids[i] && c05InScope(c05Table[idx[i]], cfg) {
					ok = true
				}
			}
			verifrt.Assert(ok, "C05 every request belongs to an in-scope URL")
		}
	}
}

// VerifH_C05_seed: the same for a seed taken from the queue.
func VerifH_C05_seed() {
	cfg := c05Config()
	defer c05Env(cfg)()
	k := verifrt.Choice("url", len(c05Table))
	u := c05Table[k]
	if u.relative {
		return // a queue entry is never relative
	}
	seed := models.NewItem("seed", &models.URL{Raw: u.raw}, "")
	preprocess("w", seed)
	if c05InScope(u, cfg) {
		verifrt.Cover("in-scope-seed")
		verifrt.Assert(seed.GetStatus() == models.ItemPreProcessed, "C05 an in-scope seed is prepared for fetching")
		req := seed.GetURL().GetRequest()
		verifrt.Assert(req != nil && req.URL.String() == u.canon, "C05 the request goes to the canonical URL the filters looked at")
	} else {
		verifrt.Cover("out-of-scope-seed")
		verifrt.Assert(seed.GetURL().GetRequest() == nil, "C05 no request is built for an out-of-scope URL")
		st := seed.GetStatus()
		verifrt.Assert(st == models.ItemFailed || st == models.ItemCompleted, "C05 an out-of-scope seed is finished without a fetch")
	}
}

// VerifH_C09_normalize: NormalizeURL accepts exactly the URL shapes the statement allows and leaves an absolute
// http(s) canonical text without fragment or surrounding quotes, re-parsed, in the URL.
func VerifH_C09_normalize() {
	c05RegisterAda()
	k := verifrt.Choice("url", len(c05Table))
	u := c05Table[k]
	parent := &models.URL{Raw: c05Parent}
	if err := parent.Parse(); err != nil {
		panic(err)
	}
	url := &models.URL{Raw: u.raw}
	var err error
	if u.raw == "//cdn.example/lib.js" && verifrt.Choice("https-parent", 2) == 1 {
		// a scheme-relative reference takes the scheme of the page it was found on
		parent = &models.URL{Raw: "https://secure.example/dir/page"}
		if err := parent.Parse(); err != nil {
			panic(err)
		}
		https := verifmodel.AdaOutcome{Protocol: "https:", Hostname: "cdn.example", Host: "cdn.example", Href: "https://cdn.example/lib.js", HrefWithFr: "https://cdn.example/lib.js"}
		verifmodel.AdaTable["//cdn.example/lib.js|https://secure.example"] = https
		verifmodel.AdaTable["//cdn.example/lib.js|https://secure.example/dir/page"] = https
		verifmodel.AdaTable["http://cdn.example/lib.js"] = verifmodel.AdaOutcome{Protocol: "http:", Hostname: "cdn.example", Host: "cdn.example", Href: "http://cdn.example/lib.js", HrefWithFr: "http://cdn.example/lib.js"}
		u.canon = "https://cdn.example/lib.js"
		verifrt.Cover("scheme-relative-under-https")
	}
	if u.raw == "/rel/p.png" && verifrt.Choice("parent-has-a-port", 2) == 1 {
		// a path-absolute reference keeps the port of the page it was found on
		parent = &models.URL{Raw: "http://site.example:8080/dir/page"}
		if err := parent.Parse(); err != nil {
			panic(err)
		}
		o := verifmodel.AdaOutcome{Protocol: "http:", Hostname: "site.example", Host: "site.example:8080", Href: "http://site.example:8080/rel/p.png", HrefWithFr: "http://site.example:8080/rel/p.png"}
		verifmodel.AdaTable["/rel/p.png|http://site.example:8080"] = o
		verifmodel.AdaTable["/rel/p.png|http://site.example:8080/dir/page"] = o
		u.canon, u.port = "http://site.example:8080/rel/p.png", ":8080"
		verifrt.Cover("path-absolute-under-a-port")
	}
	if u.relative {
		verifrt.Cover("relative")
		err = NormalizeURL(url, parent)
	} else if verifrt.Choice("with-parent", 2) == 1 {
		err = NormalizeURL(url, parent)
	} else {
		err = NormalizeURL(url, nil)
	}
	if u.okScheme && u.okHost && u.canon != "" {
		verifrt.Cover("accepted")
		verifrt.Assert(err == nil, "C09 a well-formed http(s) URL with a dotted, non-loopback host is accepted")
		verifrt.Assert(url.Raw == u.canon, "C09 the canonical text has no fragment, no surrounding quotes and is absolute")
		verifrt.Assert(url.GetParsed() != nil && url.GetParsed().Host == u.host+u.port, "C09 the canonical text is re-parsed into the URL")
		if len(u.raw) > 5 && u.raw[len(u.raw)-5:] == "#frag" {
			verifrt.Cover("fragment-stripped")
		}
		if u.raw[0] == '"' || u.raw[0] == '\'' {
			verifrt.Cover("quotes-trimmed")
		}
	} else {
		verifrt.Cover("rejected")
		verifrt.Assert(err != nil, "C09 only http(s) URLs with a dotted, non-loopback host are accepted")
	}
}
