//go:build verif

package discard

import (
	"net/http"

	"github.com/internetarchive/Zeno/internal/pkg/config"
	"github.com/internetarchive/Zeno/internal/verifrt"
)

// VerifH_C02_discard_policy: the hook chain the archiver installs discards a response exactly when it is a Cloudflare
// challenge (403 + cf-mitigated: challenge) or its status is listed in --warc-discard-status; everything else is kept.
func VerifH_C02_discard_policy() {
	status := int(verifrt.IntRange("status", 100, 599))
	var list []int
	n := verifrt.Choice("discard-list-len", 3)
	for i := 0; i < n; i++ {
		list = append(list, int(verifrt.IntRange("discard-status", 100, 599)))
	}
	config.VerifSet(&config.Config{WARCDiscardStatus: list})
	h := http.Header{}
	cf := verifrt.Choice("cf-mitigated", 3)
	if cf == 1 {
		h.Set("cf-mitigated", "challenge")
	} else if cf == 2 {
		h.Set("cf-mitigated", "other")
	}
	hook := NewBuilder().AddDefaultHooks().Build()
	got, _ := hook(&http.Response{StatusCode: status, Header: h})
	inList := false
	for _, s := range list {
		if s == status {
			inList = true
		}
	}
	want := (status == 403 && cf == 1) || inList
	if want {
		verifrt.Cover("discarded")
	} else {
		verifrt.Cover("kept")
	}
	if status == 403 && cf == 1 {
		verifrt.Cover("cloudflare-challenge")
	}
	verifrt.Assert(got == want, "C02 a response is discarded exactly when the discard policy rejects it")
	empty, _ := NewBuilder().Build()(&http.Response{StatusCode: status, Header: h})
	verifrt.Assert(!empty, "C02 an empty hook chain discards nothing")
}
