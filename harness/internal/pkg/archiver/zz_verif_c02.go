//go:build verif

package archiver

import (
	"net/http"
	"net/http/httptest"
	"net/url"
	"os"
	"sync/atomic"
	"time"

	"github.com/internetarchive/Zeno/internal/pkg/archiver/discard"
	"github.com/internetarchive/Zeno/internal/pkg/config"
	"github.com/internetarchive/Zeno/internal/pkg/log"
	"github.com/internetarchive/Zeno/internal/pkg/postprocessor/domainscrawl"
	"github.com/internetarchive/Zeno/internal/pkg/stats"
	"github.com/internetarchive/Zeno/internal/verifmodel"
	"github.com/internetarchive/Zeno/internal/verifrt"
	"github.com/internetarchive/Zeno/pkg/models"
	"github.com/CorentinB/warc"
)

func c02Chunks(name string) []int {
	sizes := []int{1, 7, 2048, 2100}
	n := 1 + verifrt.Choice("reads_"+name+"-1", 3) // at least one read: the sniffer needs the first bytes
	var out []int
	for i := 0; i < n; i++ {
		out = append(out, sizes[verifrt.Choice("size_"+name, len(sizes))])
	}
	return out
}

// VerifH_C02_process_body: whenever ProcessBody reports success the response body has been read to its end (so the
// capture layer has seen every byte) and is closed; on failure it is closed too, and a spooled copy is either handed to
// the item or closed - for every body size around the 2 KB sniff window, MIME class and configuration.
func VerifH_C02_process_body() {
	cfg := &config.Config{HTTPReadDeadline: 10}
	config.VerifSet(cfg)
	tmp := "/tmp"
	if !verifrt.Symbolic() {
		d, err := os.MkdirTemp("", "verif-c02-")
		if err != nil {
			panic(err)
		}
		defer os.RemoveAll(d)
		tmp = d
	}
	// the MIME class is what the sniffer makes of the first bytes (natively the real sniffer reads them)
	mimeK := verifrt.Choice("mime", 3)
	prefix := []string{"\x00\x01\x02\x03\x04", "%PDF-1.7\n", "<html><body>"}[mimeK]
	o := verifmodel.DoOutcome{Status: 200, Chunks: c02Chunks("b"), ReadErr: verifrt.Choice("body-fails", 2) == 1, Prefix: prefix}
	// an io.Reader may hand out its last bytes together with io.EOF or with the error that ends the stream
	o.EndWithData = verifrt.Choice("end-arrives-with-the-last-bytes", 2) == 1
	if len(o.Chunks) > 0 && o.Chunks[0] < 16 {
		o.Chunks[0] = 16 // the sniffed prefix arrives in the first read
	}
	if !verifrt.Symbolic() && o.ReadErr {
		// native replay: the real spooled file keeps up to 2 MB in memory, where a missing Close cannot be observed; a
		// body that fails after more than that has been spilled to the temp dir, where it can
		o.Chunks = append(o.Chunks, 2200000)
	}
	verifmodel.DoScript = []verifmodel.DoOutcome{o}
	verifmodel.DoCalls, verifmodel.DoBodies, verifmodel.Spools = 0, nil, nil
	req := &http.Request{Method: "GET", URL: &url.URL{Scheme: "http", Host: "h.example", Path: "/"}}
	resp, _ := verifmodel.HTTPClientDo(nil, req)
	body := verifmodel.DoBodies[0]
	u := &models.URL{Raw: "http://h.example/"}
	u.SetResponse(resp)
	verifmodel.SpoolWriteErr = verifrt.Symbolic() && verifrt.Choice("spool-fails", 2) == 1
	disable := verifrt.Choice("disable-assets", 2) == 1
	domains := verifrt.Choice("domains-crawl", 2) == 1
	maxHops := verifrt.Choice("max-hops", 2)
	err := ProcessBody(u, disable, domains, maxHops, tmp)
	verifrt.Assert(body.Closed >= 1, "C02 the response body is closed on every path")
	if o.EndWithData {
		verifrt.Cover("end-with-data")
	}
	if err == nil {
		verifrt.Cover("body-ok")
		verifrt.Assert(body.EOF, "C02 a successfully processed body was read to its end")
		verifrt.Assert(!o.ReadErr, "C02 a failing body is not reported as processed")
	} else {
		verifrt.Cover("body-error")
	}
	if u.GetBody() != nil {
		verifrt.Cover("handed-to-postprocessing")
		verifrt.Assert(err == nil, "C02 only a completely spooled body is handed to post-processing")
		if !(disable && !domains && maxHops == 0) { // (on the discard-everything fast path the sniffer sees an empty buffer)
			verifrt.Assert(mimeK != 0, "C02 only text-like and PDF bodies are kept for post-processing")
		}
		if !verifrt.Symbolic() {
			u.GetBody().Close()
		}
	}
	for _, s := range verifmodel.Spools {
		verifrt.Cover("spooled")
		verifrt.Assert((u.GetBody() != nil) != (s.Closed > 0), "C02 a spooled copy is handed to the item or closed, never both, never neither")
	}
	if !verifrt.Symbolic() && u.GetBody() == nil {
		left, _ := os.ReadDir(tmp)
		verifrt.Assert(len(left) == 0, "C02 a spooled copy is handed to the item or closed, never both, never neither")
	}
}

// VerifH_C02_archive: the real archive() for one item against a scripted server: at most max-retry+1 attempts; every
// response obtained is drained and closed; the item is archived only after the last attempt's body was completely
// processed and, with synchronous WARC writing, after that attempt's record was written (feedback received).
func VerifH_C02_archive() {
	_ = stats.Init()
	maxRetry := verifrt.Choice("max-retry", 3)
	async := verifrt.Choice("async-warc", 2) == 1
	cfg := &config.Config{MaxConcurrentAssets: 1, MaxRetry: maxRetry, WARCWriteAsync: async, HTTPReadDeadline: 10, MaxHops: 1}
	config.VerifSet(cfg)
	domainscrawl.Reset()
	hook := discard.NewBuilder().AddDefaultHooks().Build()
	globalArchiver = &archiver{Client: &warc.CustomHTTPClient{DiscardHook: hook}} // natively replaced by the real client below
	globalBucketManager = nil
	// the server: one outcome per attempt
	statuses := []int{200, 404, 503, 429, 403}
	var script []verifmodel.DoOutcome
	for i := 0; i <= maxRetry; i++ {
		var o verifmodel.DoOutcome
		switch k := verifrt.Choice("attempt", len(statuses)+1); {
		case k == len(statuses):
			o.Err = true
		default:
			o.Status = statuses[k]
			o.Chunks = []int{8}
			o.Prefix = "<html>"
			if o.Status == 403 && verifrt.Choice("cloudflare", 2) == 1 {
				o.Header = http.Header{"Cf-Mitigated": []string{"challenge"}}
			}
			o.ReadErr = o.Status == 200 && verifrt.Choice("body-fails", 2) == 1
		}
		script = append(script, o)
	}
	verifmodel.DoScript = script
	verifmodel.DoCalls, verifmodel.DoBodies = 0, nil
	target := "http://h.example/"
	var served int32
	if !verifrt.Symbolic() {
		// native replay: the real WARC-writing client against a scripted httptest server
		d, err := os.MkdirTemp("", "verif-c02-")
		if err != nil {
			panic(err)
		}
		defer os.RemoveAll(d)
		cfg.JobPath, cfg.WARCTempDir, cfg.WARCPrefix, cfg.WARCPoolSize, cfg.WARCSize = d, d+"/tmp", "VERIF", 1, 100
		ts := httptest.NewServer(http.HandlerFunc(func(w http.ResponseWriter, r *http.Request) {
			i := int(atomic.AddInt32(&served, 1)) - 1
			if i >= len(script) {
				w.WriteHeader(500)
				return
			}
			o := script[i]
			if o.Err || o.ReadErr {
				hj, _ := w.(http.Hijacker)
				conn, buf, _ := hj.Hijack()
				if o.ReadErr {
					buf.WriteString("HTTP/1.1 200 OK\r\nContent-Type: text/html\r\nContent-Length: 100\r\n\r\nxxxxx")
					buf.Flush()
				}
				conn.Close()
				return
			}
			for k, v := range o.Header {
				w.Header()[k] = v
			}
			w.Header().Set("Content-Type", "text/html")
			w.WriteHeader(o.Status)
			w.Write([]byte("xxxxx"))
		}))
		defer ts.Close()
		target = ts.URL + "/"
		log.Start()
		logger = log.NewFieldedLogger(&log.Fields{"component": "archiver"})
		startWARCWriter()
		defer func() {
			// the WARC client cannot finish while a response body it records is still open: a Close that does not
			// return is how an unclosed body shows on the real client
			done := make(chan struct{})
			go func() { globalArchiver.Client.Close(); close(done) }()
			select {
			case <-done:
			case <-time.After(6 * time.Second):
				verifrt.Assert(false, "C16 every response body obtained is closed")
			}
		}()
	}
	seed := models.NewItem("seed-1", &models.URL{Raw: target}, "")
	_ = seed.GetURL().Parse()
	req, _ := http.NewRequest("GET", target, nil)
	seed.GetURL().SetRequest(req)
	seed.SetStatus(models.ItemPreProcessed)

	archive("w", seed)

	n := verifmodel.DoCalls
	if !verifrt.Symbolic() {
		n = int(atomic.LoadInt32(&served))
		if seed.GetURL().GetBody() != nil {
			seed.GetURL().GetBody().Close()
		}
	}
	verifrt.Assert(n >= 1 && n <= maxRetry+1, "C06 each URL is attempted at most max-retry + 1 times")
	retryable := func(o verifmodel.DoOutcome) bool {
		if o.Err {
			return true
		}
		cf := o.Status == 403 && o.Header != nil
		return o.Status >= 500 || o.Status == 408 || o.Status == 425 || o.Status == 429 || cf
	}
	for i := 0; i < n-1; i++ {
		verifrt.Assert(retryable(script[i]), "C06 only failed attempts are retried")
	}
	last := script[n-1]
	if retryable(last) {
		verifrt.Cover("retries-exhausted")
		verifrt.Assert(n == maxRetry+1, "C06 a failing URL is attempted exactly max-retry + 1 times")
		verifrt.Assert(seed.GetStatus() == models.ItemFailed, "C02 a URL whose attempts all failed is failed, not archived")
	}
	for _, b := range verifmodel.DoBodies {
		verifrt.Assert(b.Closed >= 1, "C16 every response body obtained is closed")
		verifrt.Assert(b.EOF || b.Failed, "C02 every response obtained is read to its end (the capture layer sees all of it)")
	}
	if seed.GetStatus() == models.ItemArchived {
		verifrt.Cover("archived")
		verifrt.Assert(!retryable(last) && !last.ReadErr, "C02 an item is archived only after a completely processed response")
		if !async {
			verifrt.Cover("sync-write-awaited")
		}
	} else {
		verifrt.Assert(seed.GetStatus() == models.ItemFailed, "C01 the archiver leaves an item archived or failed")
	}
}

// VerifH_C02_archive_assets: the real archive() on a page with two assets fetched concurrently
// (--max-concurrent-assets 2), the WARC writer delivering its feedback from its own goroutine: with synchronous
// writing archive() returns only when the record of EVERY archived asset has been written (each fetch waits for the
// feedback of its own request), and the fetches share no unsynchronised state (race detector).
func VerifH_C02_archive_assets() {
	_ = stats.Init()
	async := verifrt.Choice("async-warc", 2) == 1
	cfg := &config.Config{MaxConcurrentAssets: 2, MaxRetry: 0, WARCWriteAsync: async, HTTPReadDeadline: 10, MaxHops: 1}
	config.VerifSet(cfg)
	domainscrawl.Reset()
	hook := discard.NewBuilder().AddDefaultHooks().Build()
	globalArchiver = &archiver{Client: &warc.CustomHTTPClient{DiscardHook: hook}}
	globalBucketManager = nil
	script := []verifmodel.DoOutcome{{Status: 200, Chunks: []int{8}, Prefix: "\x00\x01bin"}, {Status: 200, Chunks: []int{8}, Prefix: "\x00\x01bin"}}
	verifmodel.DoScript = script
	verifmodel.DoCalls, verifmodel.DoBodies = 0, nil
	verifmodel.DelayedWrite = true
	defer func() { verifmodel.DelayedWrite = false }()
	base := "http://h.example"
	if !verifrt.Symbolic() {
		d, err := os.MkdirTemp("", "verif-c02-")
		if err != nil {
			panic(err)
		}
		defer os.RemoveAll(d)
		cfg.JobPath, cfg.WARCTempDir, cfg.WARCPrefix, cfg.WARCPoolSize, cfg.WARCSize = d, d+"/tmp", "VERIF", 1, 100
		ts := httptest.NewServer(http.HandlerFunc(func(w http.ResponseWriter, r *http.Request) {
			w.Header().Set("Content-Type", "application/octet-stream")
			w.WriteHeader(200)
			w.Write([]byte("\x00\x01binary"))
		}))
		defer ts.Close()
		base = ts.URL
		log.Start()
		logger = log.NewFieldedLogger(&log.Fields{"component": "archiver"})
		startWARCWriter()
		defer globalArchiver.Client.Close()
	}
	seed := models.NewItem("seed-1", &models.URL{Raw: base + "/"}, "")
	_ = seed.GetURL().Parse()
	seed.SetStatus(models.ItemGotChildren)
	var kids []*models.Item
	for i := 0; i < 2; i++ {
		raw := base + "/a" + string(rune('0'+i)) + ".bin"
		k := models.NewItem("asset-"+string(rune('0'+i)), &models.URL{Raw: raw}, "")
		_ = k.GetURL().Parse()
		req, _ := http.NewRequest("GET", raw, nil)
		k.GetURL().SetRequest(req)
		if err := seed.AddChild(k, models.ItemGotChildren); err != nil {
			panic(err)
		}
		k.SetStatus(models.ItemPreProcessed)
		kids = append(kids, k)
	}

	archive("w", seed)

	for _, k := range kids {
		verifrt.Assert(k.GetStatus() == models.ItemArchived, "C02 an asset answered 200 is archived")
		if verifrt.Symbolic() && !async {
			verifrt.Cover("sync-write-awaited")
			for _, b := range verifmodel.DoBodies {
				if b.URL == k.GetURL().GetRequest().URL.String() {
					verifrt.Assert(b.Written.Load(), "C02 with synchronous writing an asset is archived only after the record of its own response was written")
				}
			}
		}
	}
	if verifrt.Symbolic() {
		verifrt.Assert(len(verifmodel.DoBodies) == 2, "C02 every asset is requested once")
		for _, b := range verifmodel.DoBodies {
			verifrt.Assert(b.Closed >= 1 && b.EOF, "C02 every response obtained is read to its end and closed")
		}
	}
	verifrt.Quiesce()
	verifrt.Cover("two-assets")
}

// VerifH_C06_retry_bound: a URL whose every attempt fails in a retryable way (transport error, 503, 429) is
// attempted exactly --max-retry + 1 times and then marked failed, for small and for large retry budgets (the server
// would answer 200 to a surplus attempt, so an attempt too many ends the run instead of looping).
func VerifH_C06_retry_bound() {
	_ = stats.Init()
	maxRetry := []int{0, 1, 3, 6, 7}[verifrt.Choice("max-retry", 5)]
	cfg := &config.Config{MaxConcurrentAssets: 1, MaxRetry: maxRetry, WARCWriteAsync: true, HTTPReadDeadline: 10}
	config.VerifSet(cfg)
	domainscrawl.Reset()
	hook := discard.NewBuilder().AddDefaultHooks().Build()
	globalArchiver = &archiver{Client: &warc.CustomHTTPClient{DiscardHook: hook}}
	globalBucketManager = nil
	kind := verifrt.Choice("failure", 3)
	var script []verifmodel.DoOutcome
	for i := 0; i <= maxRetry; i++ {
		switch kind {
		case 0:
			script = append(script, verifmodel.DoOutcome{Err: true})
		case 1:
			script = append(script, verifmodel.DoOutcome{Status: 503, Chunks: []int{8}, Prefix: "<html>"})
		default:
			script = append(script, verifmodel.DoOutcome{Status: 429, Chunks: []int{8}, Prefix: "<html>"})
		}
	}
	script = append(script, verifmodel.DoOutcome{Status: 200, Chunks: []int{8}, Prefix: "<html>"}) // a surplus attempt would succeed
	verifmodel.DoScript = script
	verifmodel.DoCalls, verifmodel.DoBodies = 0, nil
	target := "http://h.example/"
	var served int32
	if !verifrt.Symbolic() {
		d, err := os.MkdirTemp("", "verif-c06-")
		if err != nil {
			panic(err)
		}
		defer os.RemoveAll(d)
		cfg.JobPath, cfg.WARCTempDir, cfg.WARCPrefix, cfg.WARCPoolSize, cfg.WARCSize = d, d+"/tmp", "VERIF", 1, 100
		ts := httptest.NewServer(http.HandlerFunc(func(w http.ResponseWriter, r *http.Request) {
			i := int(atomic.AddInt32(&served, 1)) - 1
			if i >= len(script) {
				w.WriteHeader(500)
				return
			}
			o := script[i]
			if o.Err {
				hj, _ := w.(http.Hijacker)
				conn, _, _ := hj.Hijack()
				conn.Close()
				return
			}
			w.Header().Set("Content-Type", "text/html")
			w.WriteHeader(o.Status)
			w.Write([]byte("xxxxx"))
		}))
		defer ts.Close()
		target = ts.URL + "/"
		log.Start()
		logger = log.NewFieldedLogger(&log.Fields{"component": "archiver"})
		startWARCWriter()
		defer globalArchiver.Client.Close()
	}
	seed := models.NewItem("seed-1", &models.URL{Raw: target}, "")
	_ = seed.GetURL().Parse()
	req, _ := http.NewRequest("GET", target, nil)
	seed.GetURL().SetRequest(req)
	seed.SetStatus(models.ItemPreProcessed)

	archive("w", seed)

	n := verifmodel.DoCalls
	if !verifrt.Symbolic() {
		n = int(atomic.LoadInt32(&served))
		if seed.GetURL().GetBody() != nil {
			seed.GetURL().GetBody().Close()
		}
	}
	if maxRetry >= 6 {
		verifrt.Cover("large-retry-budget")
	}
	verifrt.Cover("retries-exhausted")
	budget := " [max-retry=" + string(rune('0'+maxRetry)) + "]" // (one native replay per budget)
	verifrt.Assert(n == maxRetry+1, "C06 a failing URL is attempted exactly max-retry + 1 times"+budget)
	verifrt.Assert(seed.GetStatus() == models.ItemFailed, "C02 a URL whose attempts all failed is failed, not archived"+budget)
}
