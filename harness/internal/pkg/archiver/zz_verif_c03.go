//go:build verif

package archiver

import (
	"os"

	"github.com/internetarchive/Zeno/internal/pkg/config"
	"github.com/internetarchive/Zeno/internal/verifrt"
	"github.com/internetarchive/Zeno/pkg/models"
)

// VerifH_C03_archiver_startstop: for every supported configuration (proxy or direct, rate limiter on/off,
// HTTP timeout set or not, 1-2 workers) and for a pipeline paused or not, Start followed by Stop returns
// without crashing and closes every WARC client that was created.
func VerifH_C03_archiver_startstop() {
	dir := "/nonexistent"
	if !verifrt.Symbolic() {
		d, err := os.MkdirTemp("", "verif-c03-")
		if err != nil {
			panic(err)
		}
		defer os.RemoveAll(d)
		dir = d
	}
	cfg := &config.Config{JobPath: dir, WARCPrefix: "VERIF", WARCPoolSize: 1, WARCSize: 100, WARCTempDir: dir + "/tmp",
		MaxConcurrentAssets: 1, RateLimitCapacity: 2, RateLimitRefillRate: 1, RateLimitCleanupFrequency: 1e9}
	cfg.WorkersCount = 1 + verifrt.Choice("workers-1", 2)
	if verifrt.Choice("proxy", 2) == 1 {
		cfg.Proxy = "socks5://127.0.0.1:9"
		verifrt.Cover("proxy")
	} else {
		verifrt.Cover("direct")
	}
	cfg.DisableRateLimit = verifrt.Choice("no-ratelimit", 2) == 1
	if verifrt.Choice("http-timeout", 2) == 1 {
		cfg.HTTPTimeout = 30
	}
	config.VerifSet(cfg)
	in, out := make(chan *models.Item, 1), make(chan *models.Item, 1)
	err := Start(in, out)
	verifrt.Assert(err == nil, "C03 archiver starts")
	a := globalArchiver
	Stop() // a nil dereference or a hang here is the violation (panic / deadlock reported by the engine)
	verifrt.Cover("stopped")
	verifrt.Assert(a.Client != nil || a.ClientWithProxy != nil, "C03 some WARC client was created")
}
