//go:build verif

package archiver

import (
	"context"
	"os"

	"github.com/internetarchive/Zeno/internal/pkg/config"
	"github.com/internetarchive/Zeno/internal/pkg/controler/pause"
	"github.com/internetarchive/Zeno/internal/pkg/stats"
	"github.com/internetarchive/Zeno/internal/verifrt"
	"github.com/internetarchive/Zeno/pkg/models"
)

// VerifH_C03_archiver_startstop: for every supported configuration (proxy or direct, rate limiter on/off,
// HTTP timeout set or not, 1-2 workers) and for a pipeline paused or not, Start followed by Stop returns
// without crashing and closes every WARC client that was created.
func VerifH_C03_archiver_startstop() {
	dir := "/nonexistent"
	if !verifrt.Symbolic() {
		d, err := os.MkdirTemp("", "verif-c03-")
		if err != nil {
			panic(err)
		}
		defer os.RemoveAll(d)
		dir = d
	}
	cfg := &config.Config{JobPath: dir, WARCPrefix: "VERIF", WARCPoolSize: 1, WARCSize: 100, WARCTempDir: dir + "/tmp",
		MaxConcurrentAssets: 1, RateLimitCapacity: 2, RateLimitRefillRate: 1, RateLimitCleanupFrequency: 1e9}
	cfg.WorkersCount = 1 + verifrt.Choice("workers-1", 2)
	if verifrt.Choice("proxy", 2) == 1 {
		cfg.Proxy = "socks5://127.0.0.1:9"
		verifrt.Cover("proxy")
	} else {
		verifrt.Cover("direct")
	}
	cfg.DisableRateLimit = verifrt.Choice("no-ratelimit", 2) == 1
	if verifrt.Choice("http-timeout", 2) == 1 {
		cfg.HTTPTimeout = 30
	}
	config.VerifSet(cfg)
	in, out := make(chan *models.Item, 1), make(chan *models.Item, 1)
	err := Start(in, out)
	verifrt.Assert(err == nil, "C03 archiver starts")
	a := globalArchiver
	Stop() // a nil dereference or a hang here is the violation (panic / deadlock reported by the engine)
	verifrt.Cover("stopped")
	verifrt.Assert(a.Client != nil || a.ClientWithProxy != nil, "C03 some WARC client was created")
}

// VerifH_C03_archiver_workers: the real archiver worker loop (started as Start does, without the WARC clients):
// stop returns when idle, when holding a seed nobody downstream reads, and when paused.
func VerifH_C03_archiver_workers() {
	_ = stats.Init()
	ctx, cancel := context.WithCancel(context.Background())
	in := make(chan *models.Item, 1)
	outCap := verifrt.Choice("downstream-capacity", 2)
	out := make(chan *models.Item, outCap)
	stuck, late := false, false
	a := &archiver{ctx: ctx, cancel: cancel, inputCh: in, outputCh: out}
	n := 1 + verifrt.Choice("workers-1", 2)
	for i := 0; i < n; i++ {
		a.wg.Add(1)
		go a.worker("w")
	}
	verifrt.Quiesce()
	if verifrt.Choice("seed", 2) == 1 {
		s := models.NewItem("seed-1", &models.URL{Raw: "http://x.example/"}, "")
		s.SetStatus(models.ItemCompleted) // skipped by the archiver, handed on as it is
		in <- s
		verifrt.Settle() // native replay: let the worker take the seed and reach the hand-off
		stuck = outCap == 0
		verifrt.Cover("seed-in-flight")
	}
	switch verifrt.Choice("pause", 3) {
	case 1:
		pause.Pause("verif")
		verifrt.Settle()
		verifrt.Cover("stop-while-paused")
		if !stuck {
			verifrt.Quiesce() // every idle worker has seen the pause and waits to acknowledge it
			l := models.NewItem("late", &models.URL{Raw: "http://x.example/late"}, "")
			l.SetStatus(models.ItemCompleted)
			in <- l // work arrives while the stage is paused
			late = true
			verifrt.Cover("work-arrives-while-paused")
		}
	case 2:
		if stuck {
			return // Resume legitimately waits for a worker that is stuck on a consumer that never reads: not a stop scenario
		}
		pause.Pause("verif")
		verifrt.Settle()
		pause.Resume()
		verifrt.Settle()
	}
	a.cancel()
	a.wg.Wait()
	verifrt.Cover("stopped")
	if late {
		verifrt.Assert(len(in) == 1, "C14 a paused worker takes no work, also when its stage is stopped while paused")
	}
}
