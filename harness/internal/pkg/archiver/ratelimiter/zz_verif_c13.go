//go:build verif

package ratelimiter

import (
	"time"

	"github.com/internetarchive/Zeno/internal/verifrt"
)

const c13MaxNs = int64(1) << 50 // ~13 days of virtual clock, stated range bound
const c13MaxF = float64(1 << 20)

type c13Pre struct {
	tokens, capacity, rate, ideal float64
	fc                            int
	lastNs, penNs, nowNs          int64
	penZero                       bool
}

// c13Arbitrary builds a bucket in an arbitrary state satisfying the invariant.
func c13Arbitrary() (*tokenBucket, time.Time, c13Pre) {
	base := time.Now()
	var p c13Pre
	p.tokens = verifrt.Float64("tokens")
	p.capacity = verifrt.Float64("capacity")
	p.rate = verifrt.Float64("refillRate")
	p.ideal = verifrt.Float64("idealRate")
	p.fc = verifrt.Int("failureCount")
	p.lastNs = verifrt.Int64("lastRefill_ns")
	p.nowNs = verifrt.Int64("now_ns")
	p.penZero = verifrt.Choice("penalty_never_set", 2) == 1
	tb := &tokenBucket{tokens: p.tokens, capacity: p.capacity, refillRate: p.rate, idealRate: p.ideal, failureCount: p.fc}
	tb.lastRefill = base.Add(time.Duration(p.lastNs))
	if !p.penZero {
		p.penNs = verifrt.Int64("penaltyUntil_ns")
		verifrt.Assume(verifrt.All(p.penNs >= 1, p.penNs <= c13MaxNs))
		tb.penaltyUntil = base.Add(time.Duration(p.penNs))
	}
	now := base.Add(time.Duration(p.nowNs))
	tb.nowFunc = func() time.Time { return now }
	verifrt.Assume(verifrt.All(p.lastNs >= 1, p.lastNs <= p.nowNs, p.nowNs <= c13MaxNs))
	verifrt.Assume(verifrt.All(c13Inv(tb), c13Range(tb)))
	return tb, now, p
}

func c13Floor(ideal float64) float64 {
	return verifrt.IteF(ideal < 0.5, ideal, 0.5)
}

// c13Inv is the representation invariant the property states: token range and rate range.
func c13Inv(tb *tokenBucket) bool {
	return verifrt.All(
		tb.capacity >= 1,
		tb.tokens >= 0, tb.tokens <= tb.capacity,
		tb.idealRate > 0,
		tb.refillRate >= c13Floor(tb.idealRate), tb.refillRate <= tb.idealRate,
		tb.failureCount >= 0)
}

// c13Range are the stated value bounds of the claim (not part of the invariant, only assumed of the pre-state).
func c13Range(tb *tokenBucket) bool {
	return verifrt.All(tb.capacity <= c13MaxF, tb.idealRate <= c13MaxF, tb.failureCount < 1<<40)
}

// VerifH_C13_refill: one refill from an arbitrary invariant state.
func VerifH_C13_refill() {
	tb, now, p := c13Arbitrary()
	inPenalty := !p.penZero && p.nowNs < p.penNs
	last0, pen0 := tb.lastRefill, tb.penaltyUntil
	tb.refill()
	verifrt.Assert(c13Inv(tb), "C13 refill preserves token/rate invariant")
	verifrt.Assert(tb.tokens >= p.tokens, "C13 refill never removes tokens")
	verifrt.Assert(verifrt.All(tb.refillRate == p.rate, tb.idealRate == p.ideal, tb.capacity == p.capacity, tb.failureCount == p.fc), "C13 refill leaves rate/capacity/failures alone")
	if inPenalty {
		verifrt.Cover("refill-in-penalty")
		verifrt.Assert(tb.tokens == p.tokens, "C13 no refill during penalty")
		verifrt.Assert(tb.lastRefill.Equal(now.Add(time.Duration(p.lastNs-p.nowNs))), "C13 refill during penalty keeps reference point")
		return
	}
	// reference point: the later of lastRefill and the end of the penalty
	ref := last0
	if !p.penZero && p.penNs > p.lastNs {
		ref = pen0
		verifrt.Cover("refill-after-penalty")
	}
	elapsed := now.Sub(ref).Seconds()
	if elapsed > 0 {
		verifrt.Cover("refill-adds")
		// float64-level bound: adds at most elapsed x rate, where rate is the current rate (<= configured by the
		// invariant) or the configured rate itself. (Proving e*rate <= e*ideal inside the solver needs a
		// multiplier-monotonicity argument that neither z3 nor cvc5 finishes; it is the one-line real-number
		// step "rate <= ideal and e >= 0 imply e*rate <= e*ideal", recorded in DESIGN.md.)
		verifrt.Assert(verifrt.Any(tb.tokens <= p.tokens+elapsed*p.rate, tb.tokens <= p.tokens+elapsed*p.ideal),
			"C13 refill adds at most elapsed x (current or configured) rate")
		verifrt.Assert(tb.lastRefill.Equal(now), "C13 refill advances reference point")
	} else {
		verifrt.Assert(tb.tokens == p.tokens, "C13 no elapsed time, no tokens")
	}
}

// VerifH_C13_wait: Wait (at most two loop iterations) releases exactly one token and only when one is available.
func VerifH_C13_wait() { c13Wait(2) }

// VerifH_C13_wait1: the same with the wait loop bounded to one iteration (quick tier).
func VerifH_C13_wait1() { c13Wait(1) }

func c13Wait(maxIter int) {
	tb, _, p := c13Arbitrary()
	base := tb.lastRefill.Add(-time.Duration(p.lastNs))
	now2Ns := p.nowNs
	if maxIter > 1 {
		now2Ns = verifrt.Int64("now2_ns")
		verifrt.Assume(verifrt.All(now2Ns >= p.nowNs, now2Ns <= c13MaxNs))
	}
	calls := 0
	lastNow := p.nowNs
	tb.nowFunc = func() time.Time {
		calls++
		if calls == 1 {
			return base.Add(time.Duration(p.nowNs))
		}
		if calls == 2 && maxIter > 1 {
			lastNow = now2Ns
			return base.Add(time.Duration(now2Ns))
		}
		verifrt.Assume(false) // bound: at most maxIter iterations of the wait loop are explored
		return time.Time{}
	}
	// reference for a release in the first iteration: Wait = refill (decided by its own lemma), then take one token
	ref := &tokenBucket{tokens: tb.tokens, capacity: tb.capacity, refillRate: tb.refillRate, idealRate: tb.idealRate,
		lastRefill: tb.lastRefill, penaltyUntil: tb.penaltyUntil, failureCount: tb.failureCount}
	ref.nowFunc = func() time.Time { return base.Add(time.Duration(p.nowNs)) }
	ref.refill()
	tb.Wait()
	if calls <= 1 { // (a Wait that does not even look at the clock is held to the same reference)
		verifrt.Cover("wait-first-iteration")
		// the time a release has been credited for is consumed: the state is refill's state minus one token, so the
		// window bound (capacity + T x rate) follows from the refill lemma by induction over the releases
		verifrt.Assert(verifrt.All(tb.tokens == ref.tokens-1, tb.lastRefill.Equal(ref.lastRefill), tb.penaltyUntil.Equal(ref.penaltyUntil)),
			"C13 a release leaves refill's state minus one token (credited time is not credited again)")
		verifrt.Assert(verifrt.All(tb.refillRate == ref.refillRate, tb.idealRate == ref.idealRate, tb.capacity == ref.capacity, tb.failureCount == ref.failureCount),
			"C13 Wait leaves rate/capacity/failures alone")
	} else {
		verifrt.Cover("wait-second-iteration")
	}
	verifrt.Assert(c13Inv(tb), "C13 Wait preserves invariant")
	// a release while the penalty is running is only possible with a token already in the bucket
	if !p.penZero && lastNow < p.penNs {
		verifrt.Cover("wait-during-penalty")
		verifrt.Assert(p.tokens >= 1, "C13 no release during penalty without a banked token")
		verifrt.Assert(tb.tokens == p.tokens-1, "C13 Wait takes exactly one token")
	}
	verifrt.Assert(verifrt.All(tb.tokens >= 0, tb.tokens <= tb.capacity-1), "C13 Wait took a token that was there")
}

func c13ExpectedPenalty(fcAfter int) time.Duration {
	// 5 s doubling with every further failure, capped at 30 s
	if fcAfter >= 4 {
		return 30 * time.Second
	}
	return (5 * time.Second) << uint(fcAfter-1)
}

// VerifH_C13_penalty: 429/403/408/425 impose exactly the stated penalty for every streak length.
func VerifH_C13_penalty() {
	tb, now, p := c13Arbitrary()
	code := []int{429, 403, 408, 425}[verifrt.Choice("code", 4)]
	tb.adjustOnFailure(code)
	verifrt.Assert(tb.failureCount == p.fc+1, "C13 failure streak counted")
	got := tb.penaltyUntil.Sub(now)
	want := c13ExpectedPenalty(p.fc + 1)
	if p.fc+1 >= 32 {
		verifrt.Cover("long-streak")
	}
	verifrt.Assert(got == want, "C13 penalty = min(5s*2^(n-1), 30s)")
	verifrt.Assert(verifrt.All(got >= 5*time.Second, got <= 30*time.Second), "C13 penalty within [5s,30s]")
	verifrt.Assert(tb.tokens == 0, "C13 tokens cleared on penalty")
	verifrt.Assert(verifrt.All(tb.refillRate == p.rate, tb.idealRate == p.ideal, tb.capacity == p.capacity), "C13 penalty leaves rates alone")
	verifrt.Assert(c13Inv(tb), "C13 penalty preserves invariant")
	// and nothing is released before the penalty has elapsed
	laterNs := verifrt.Int64("later_ns")
	verifrt.Assume(verifrt.All(laterNs >= p.nowNs, laterNs <= c13MaxNs))
	later := now.Add(time.Duration(laterNs - p.nowNs))
	tb.nowFunc = func() time.Time { return later }
	tb.refill()
	if later.Before(now.Add(want)) {
		verifrt.Cover("refill-before-penalty-end")
		verifrt.Assert(tb.tokens == 0, "C13 no token before the penalty elapsed")
	}
}

// VerifH_C13_5xx: server errors only lower the rate (not below the floor) and clear tokens.
func VerifH_C13_5xx() {
	tb, _, p := c13Arbitrary()
	code := verifrt.Int("code")
	verifrt.Assume(verifrt.All(code >= 500, code <= 599))
	pen := tb.penaltyUntil
	tb.adjustOnFailure(code)
	verifrt.Assert(tb.refillRate <= p.rate, "C13 5xx never raises the rate")
	verifrt.Assert(tb.refillRate >= c13Floor(p.ideal), "C13 rate not below min(0.5, configured)")
	verifrt.Assert(tb.refillRate <= p.ideal, "C13 rate not above configured")
	verifrt.Assert(tb.tokens == 0, "C13 tokens cleared on 5xx")
	verifrt.Assert(verifrt.All(tb.penaltyUntil.Equal(pen), tb.idealRate == p.ideal, tb.capacity == p.capacity), "C13 5xx leaves penalty/ideal/capacity alone")
	verifrt.Assert(tb.failureCount == p.fc+1, "C13 5xx counted")
	if p.ideal < 0.5 {
		verifrt.Cover("configured-rate-below-half")
	}
	if tb.refillRate < p.rate {
		verifrt.Cover("rate-lowered")
	}
}

// VerifH_C13_other: any other status leaves the bucket untouched.
func VerifH_C13_other() {
	tb, _, p := c13Arbitrary()
	code := verifrt.Int("code")
	verifrt.Assume(verifrt.All(code < 500, code != 429, code != 403, code != 408, code != 425))
	pen, last := tb.penaltyUntil, tb.lastRefill
	tb.adjustOnFailure(code)
	verifrt.Cover("other-code")
	verifrt.Assert(verifrt.All(tb.tokens == p.tokens, tb.refillRate == p.rate, tb.idealRate == p.ideal, tb.capacity == p.capacity,
		tb.failureCount == p.fc, tb.penaltyUntil.Equal(pen), tb.lastRefill.Equal(last)), "C13 other status codes change nothing")
}

// VerifH_C13_success: successes only raise the rate, never above the configured one.
func VerifH_C13_success() {
	tb, _, p := c13Arbitrary()
	pen := tb.penaltyUntil
	tb.onSuccess()
	verifrt.Assert(tb.refillRate >= p.rate, "C13 success never lowers the rate")
	verifrt.Assert(tb.refillRate <= p.ideal, "C13 success never overshoots the configured rate")
	verifrt.Assert(verifrt.All(tb.tokens == p.tokens, tb.capacity == p.capacity, tb.idealRate == p.ideal, tb.penaltyUntil.Equal(pen)), "C13 success leaves tokens/penalty alone")
	verifrt.Assert(verifrt.Any(tb.failureCount == p.fc, tb.failureCount == p.fc-1), "C13 success forgets at most one failure")
	verifrt.Assert(c13Inv(tb), "C13 success preserves invariant")
	if tb.refillRate > p.rate {
		verifrt.Cover("rate-recovers")
	}
	if !p.penZero && p.nowNs <= p.penNs {
		verifrt.Cover("success-during-penalty")
		verifrt.Assert(verifrt.All(tb.refillRate == p.rate, tb.failureCount == p.fc), "C13 success during penalty changes nothing")
	}
}

// VerifH_C16_bucket_bound: the per-host limiter table never exceeds its configured bound, whatever hosts arrive in
// whatever order, however often each was used and whatever failure state its bucket carries (non-empty host names, usage counts below 2^31-1: stated bounds).
func VerifH_C16_bucket_bound() {
	verifrt.MapOrderAll(true)
	max := 1 + verifrt.Choice("max-buckets-1", 2)
	bm := &BucketManager{buckets: make(map[string]*managedBucket), maxBuckets: max, capacity: 2, refillRate: 1}
	hosts := []string{"a.example", "b.example", "c.example"}
	// an arbitrary table within the bound, with arbitrary usage counts
	pre := verifrt.Choice("entries", max+1)
	for i := 0; i < pre; i++ {
		uc := int(verifrt.IntRange("usage", 1, 1000))
		tb := newTokenBucket(2, 1)
		if verifrt.Choice("host-is-failing", 2) == 1 {
			// the host answered 429 or 5xx before: a streak, a lowered rate, possibly a running penalty
			tb.failureCount = 1 + verifrt.Choice("streak-1", 2)
			tb.refillRate = 0.5
			tb.tokens = 0
			if verifrt.Choice("penalty-running", 2) == 1 {
				tb.penaltyUntil = tb.lastRefill.Add(30 * time.Second)
			}
			verifrt.Cover("failing-host-in-table")
		}
		bm.buckets[hosts[i]] = &managedBucket{bucket: tb, usageCount: uc}
	}
	for step := 0; step < 2; step++ {
		h := hosts[verifrt.Choice("host", len(hosts))]
		mb := bm.getBucket(h)
		verifrt.Assert(mb != nil && bm.buckets[h] == mb, "C16 the requested host has its bucket")
		verifrt.Assert(len(bm.buckets) <= max, "C16 the limiter table stays within its configured bound")
		if len(bm.buckets) == max {
			verifrt.Cover("table-full")
		}
	}
}
