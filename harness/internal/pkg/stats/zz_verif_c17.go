//go:build verif

package stats

import (
	"github.com/internetarchive/Zeno/internal/verifrt"
)

// VerifH_C17_counter: gauge = sum of increments - sum of decrements for every interleaving and every step value.
func VerifH_C17_counter() {
	c := &counter{}
	a, b, d := verifrt.Uint64("inc_a"), verifrt.Uint64("inc_b"), verifrt.Uint64("dec")
	verifrt.Assume(verifrt.All(a < 1<<40, b < 1<<40, d >= 1, d <= a))
	done := make(chan struct{}, 3)
	verifrt.Go(func() { c.incr(a); c.decr(d); done <- struct{}{} })
	verifrt.Go(func() { c.incr(b); done <- struct{}{} })
	verifrt.Go(func() { c.incr(1); c.decr(1); done <- struct{}{} })
	<-done
	<-done
	<-done
	verifrt.Cover("burst-done")
	verifrt.Assert(c.get() == a+b-d, "C17 counter equals increments minus decrements")
	c.reset()
	verifrt.Assert(c.get() == 0, "C17 counter reset")
}

// VerifH_C17_rate_mean: totals equal the number of events, mean = sum/count (as the float64 division of the exact integers).
func VerifH_C17_rate_mean() {
	r := &rate{}
	m := &mean{}
	x, y, z := verifrt.Uint64("x"), verifrt.Uint64("y"), verifrt.Uint64("z")
	verifrt.Assume(verifrt.All(x < 1<<40, y < 1<<40, z < 1<<40))
	done := make(chan struct{}, 3)
	verifrt.Go(func() { r.incr(1); m.add(x); done <- struct{}{} })
	verifrt.Go(func() { r.incr(1); m.add(y); r.incr(1); done <- struct{}{} })
	verifrt.Go(func() { m.add(z); done <- struct{}{} })
	<-done
	<-done
	<-done
	verifrt.Cover("burst-done")
	verifrt.Assert(r.getTotal() == 3, "C17 total equals number of events")
	verifrt.Assert(verifrt.All(m.sum == x+y+z, m.count == 3), "C17 mean accumulates every sample")
}

// VerifH_C17_mean_get: the reported mean is sum/count (float64 division of the exact integers), 0 when empty.
func VerifH_C17_mean_get() {
	m := &mean{count: verifrt.Uint64("count"), sum: verifrt.Uint64("sum")}
	got := m.get()
	if m.count == 0 {
		verifrt.Cover("empty")
		verifrt.Assert(got == 0, "C17 empty mean is zero")
	} else {
		verifrt.Cover("non-empty")
		verifrt.Assert(got == float64(m.sum)/float64(m.count), "C17 mean equals sum over count")
	}
}

// VerifH_C17_bucket: per-status-code totals equal the events for that code; concurrent first use of a key loses nothing.
func VerifH_C17_bucket() {
	verifrt.MapOrderAll(false)
	rb := newRateBucket()
	keys := []string{"200", "404"}
	k1 := keys[verifrt.Choice("k1", 2)]
	k2 := keys[verifrt.Choice("k2", 2)]
	done := make(chan struct{}, 2)
	verifrt.Go(func() { rb.incr(k1, 1); rb.incr("200", 1); done <- struct{}{} })
	verifrt.Go(func() { rb.incr(k2, 1); done <- struct{}{} })
	<-done
	<-done
	want200, want404 := uint64(1), uint64(0)
	if k1 == "200" {
		want200++
	} else {
		want404++
	}
	if k2 == "200" {
		want200++
	} else {
		want404++
	}
	verifrt.Cover("burst-done")
	verifrt.Assert(rb.getTotal("200") == want200 && rb.getTotal("404") == want404, "C17 per-code totals equal the events")
	all := rb.getAllTotal()
	verifrt.Assert(bucketSum(all) == 3, "C17 bucket sum equals all events")
	verifrt.Assert(rb.getTotal("500") == 0, "C17 unknown code has no events")
}

// refMatch is the reference wildcard matcher (recursive definition): * any sequence, ? any single character.
func refMatch(p, s string) bool {
	if len(p) == 0 {
		return len(s) == 0
	}
	if p[0] == '*' {
		for i := 0; i <= len(s); i++ {
			if refMatch(p[1:], s[i:]) {
				return true
			}
		}
		return false
	}
	if len(s) == 0 {
		return false
	}
	if p[0] == '?' || p[0] == s[0] {
		return refMatch(p[1:], s[1:])
	}
	return false
}

// VerifH_C17_match: the status-code filter ("2*", "4??", ...) selects exactly the codes the pattern denotes.
func VerifH_C17_match() {
	p := verifrt.String("pattern", 3)
	s := verifrt.String("code", 3)
	// keys are HTTP status codes: decimal digits (a key containing a literal '*' is outside the claim)
	for i := 0; i < len(s); i++ {
		verifrt.Assume(verifrt.All(s[i] >= '0', s[i] <= '9'))
	}
	got := match(p, s)
	want := refMatch(p, s)
	if got {
		verifrt.Cover("matched")
	} else {
		verifrt.Cover("not-matched")
	}
	verifrt.Assert(got == want, "C17 wildcard filter matches exactly the denoted codes")
}

// VerifH_C17_public: the public counters (URLs crawled, seeds finished, status codes) after a concurrent burst.
func VerifH_C17_public() {
	verifrt.MapOrderAll(false)
	_ = Init()
	Reset()
	base := URLsCrawledGet
	_ = base
	u0, s0 := globalStats.URLsCrawled.getTotal(), globalStats.SeedsFinished.getTotal()
	c0 := globalStats.HTTPReturnCodes.getTotal("200")
	done := make(chan struct{}, 2)
	verifrt.Go(func() { URLsCrawledIncr(); HTTPReturnCodesIncr("200"); SeedsFinishedIncr(); done <- struct{}{} })
	verifrt.Go(func() { URLsCrawledIncr(); HTTPReturnCodesIncr("200"); done <- struct{}{} })
	<-done
	<-done
	verifrt.Cover("burst-done")
	verifrt.Assert(globalStats.URLsCrawled.getTotal() == u0+2, "C17 URLs crawled total")
	verifrt.Assert(globalStats.SeedsFinished.getTotal() == s0+1, "C17 seeds finished total")
	verifrt.Assert(globalStats.HTTPReturnCodes.getTotal("200") == c0+2, "C17 per-code total")
}
