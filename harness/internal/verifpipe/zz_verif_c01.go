//go:build verif

// Package verifpipe wires the real pipeline stages together the way controler.startPipeline does
// (reactor -> preprocessor -> archiver -> postprocessor -> finisher -> reactor feedback / source channels)
// and drives one seed through a site whose shape is chosen symbolically.
package verifpipe

import (
	"net"
	"net/http"
	"net/http/httptest"
	"os"
	"sync"
	"time"

	"github.com/internetarchive/Zeno/internal/pkg/archiver"
	"github.com/internetarchive/Zeno/internal/pkg/config"
	"github.com/internetarchive/Zeno/internal/pkg/finisher"
	"github.com/internetarchive/Zeno/internal/pkg/postprocessor"
	"github.com/internetarchive/Zeno/internal/pkg/postprocessor/domainscrawl"
	"github.com/internetarchive/Zeno/internal/pkg/preprocessor"
	"github.com/internetarchive/Zeno/internal/pkg/preprocessor/seencheck"
	"github.com/internetarchive/Zeno/internal/pkg/reactor"
	"github.com/internetarchive/Zeno/internal/pkg/stats"
	"github.com/internetarchive/Zeno/internal/verifmodel"
	"github.com/internetarchive/Zeno/internal/verifrt"
	"github.com/internetarchive/Zeno/pkg/models"
)

var base = "http://site.example"

// c01Native serves verifmodel.Site over real HTTP on a non-loopback address (the crawler refuses localhost and
// 127.0.0.1), so that the native replay runs the real WARC client, the real ada and the real extractors.
type c01Native struct {
	mu       sync.Mutex
	attempts map[string]int
	fetched  map[string]int
	ts       *httptest.Server
	dir      string
}

func c01NonLoopback() string {
	addrs, _ := net.InterfaceAddrs()
	for _, a := range addrs {
		if ipn, ok := a.(*net.IPNet); ok && ipn.IP.To4() != nil && !ipn.IP.IsLoopback() {
			return ipn.IP.String()
		}
	}
	return ""
}

func (n *c01Native) ServeHTTP(w http.ResponseWriter, r *http.Request) {
	n.mu.Lock()
	key := base + r.URL.Path
	p := verifmodel.Site[key]
	n.attempts[key]++
	at := n.attempts[key]
	if p == nil {
		p = &verifmodel.Page{Status: 404}
	}
	if at <= p.NetFails {
		n.mu.Unlock()
		hj, _ := w.(http.Hijacker)
		conn, _, _ := hj.Hijack()
		conn.Close()
		return
	}
	n.fetched[key]++
	n.mu.Unlock()
	body := "\x00\x01\x02binary"
	ctype := "application/octet-stream"
	switch p.Kind {
	case "html":
		ctype = "application/xhtml+xml"
		body = "<html><body>"
		for _, a := range p.Assets {
			body += "<img src=\"" + a + "\">"
		}
		for _, o := range p.Outlinks {
			body += "<a href=\"" + o + "\">l</a>"
		}
		body += "</body></html>"
	case "css":
		ctype = "application/json"
		body = "{\"k\":["
		for i, a := range p.Assets {
			if i > 0 {
				body += ","
			}
			body += "\"" + a + "\""
		}
		body += "]}"
	}
	w.Header().Set("Content-Type", ctype)
	if p.Location != "" {
		w.Header().Set("Location", p.Location)
	}
	w.WriteHeader(p.Status)
	w.Write([]byte(body))
}

func c01StartNative(cfg *config.Config) *c01Native {
	ip := c01NonLoopback()
	if ip == "" {
		println("VERIF-REPLAY-ERROR no non-loopback IPv4 address to serve the site on")
		os.Exit(5)
	}
	l, err := net.Listen("tcp", ip+":0")
	if err != nil {
		println("VERIF-REPLAY-ERROR cannot listen on", ip)
		os.Exit(5)
	}
	n := &c01Native{attempts: map[string]int{}, fetched: map[string]int{}}
	n.ts = httptest.NewUnstartedServer(n)
	n.ts.Listener.Close()
	n.ts.Listener = l
	n.ts.Start()
	base = n.ts.URL
	n.dir, _ = os.MkdirTemp("", "verif-c01-")
	cfg.JobPath, cfg.WARCTempDir, cfg.WARCPrefix, cfg.WARCPoolSize, cfg.WARCSize = n.dir, n.dir+"/tmp", "VERIF", 1, 100
	return n
}

func ada(raw, proto, host, href string) {
	verifmodel.AdaTable[raw] = verifmodel.AdaOutcome{Protocol: proto, Hostname: host, Href: href, HrefWithFr: href}
}

// VerifH_C01_one_seed: one seed through the real stages, for every site shape in the bound: the seed is reported
// finished exactly once, only when nothing in its tree is pending, every in-scope URL was requested exactly once,
// outlinks reach the queue as fresh seeds, and afterwards the reactor tracks nothing.
func VerifH_C01_one_seed() { c01OneSeed(2) }

// VerifH_C01_one_seed_3assets: the same with up to three embedded assets (thorough tier).
func VerifH_C01_one_seed_3assets() { c01OneSeed(3) }

func c01OneSeed(maxAssets int) {
	verifrt.MapOrderAll(false)
	cfg := &config.Config{WorkersCount: 1, MaxConcurrentAssets: 1, HTTPReadDeadline: 10, UserAgent: "verif", DisableRateLimit: true,
		ExcludeHosts: []string{"archive.org", "archive-it.org"}}
	cfg.MaxHops = verifrt.Choice("max-hops", 2)
	cfg.MaxRetry = verifrt.Choice("max-retry", 2)
	cfg.MaxRedirect = verifrt.Choice("max-redirect", 2)
	cfg.DisableAssetsCapture = verifrt.Choice("disable-assets", 2) == 1
	cfg.UseSeencheck = verifrt.Choice("seencheck", 2) == 1
	config.VerifSet(cfg)
	domainscrawl.Reset()
	var nat *c01Native
	if !verifrt.Symbolic() {
		_ = stats.Init()
		nat = c01StartNative(cfg)
		defer os.RemoveAll(nat.dir)
		defer nat.ts.Close()
	}
	if cfg.UseSeencheck {
		verifmodel.SeenStore = map[string]string{}
		if verifrt.Symbolic() {
			_ = seencheck.Start("/nonexistent")
		} else {
			must(seencheck.Start(nat.dir))
			defer seencheck.Close()
		}
	}
	fetched := func(u string) int {
		if nat == nil {
			return verifmodel.SiteFetched[u]
		}
		nat.mu.Lock()
		defer nat.mu.Unlock()
		return nat.fetched[u]
	}
	attempts := func(u string) int {
		if nat == nil {
			return verifmodel.SiteAttempts[u]
		}
		nat.mu.Lock()
		defer nat.mu.Unlock()
		return nat.attempts[u]
	}

	// ---- the site ----
	root := base + "/"
	pool := []string{base + "/a.png", base + "/b.css", base + "/a.png", "https://web.archive.org/x", "ftp://files.example/f", base + "/missing.png",
		base + "/r.js", base + "/r2.js", base + "/down.png", base + "/flaky.png"}
	ada(root, "http:", "site.example", root)
	ada(base+"/a.png", "http:", "site.example", base+"/a.png")
	ada(base+"/b.css", "http:", "site.example", base+"/b.css")
	ada(base+"/c.woff", "http:", "site.example", base+"/c.woff")
	ada(base+"/missing.png", "http:", "site.example", base+"/missing.png")
	ada(base+"/next", "http:", "site.example", base+"/next")
	ada("https://web.archive.org/x", "https:", "web.archive.org", "https://web.archive.org/x")
	ada("ftp://files.example/f", "ftp:", "files.example", "ftp://files.example/f")
	verifmodel.Site[base+"/a.png"] = &verifmodel.Page{Status: 200}
	verifmodel.Site[base+"/b.css"] = &verifmodel.Page{Status: 200, Kind: "css", Assets: []string{base + "/c.woff"}}
	verifmodel.Site[base+"/c.woff"] = &verifmodel.Page{Status: 200}
	verifmodel.Site[base+"/missing.png"] = &verifmodel.Page{Status: 404}
	verifmodel.Site[base+"/next"] = &verifmodel.Page{Status: 200, Kind: "html"}
	// assets that redirect: one to an excluded host, one to an in-scope image
	ada(base+"/r.js", "http:", "site.example", base+"/r.js")
	ada(base+"/r2.js", "http:", "site.example", base+"/r2.js")
	ada(base+"/t.png", "http:", "site.example", base+"/t.png")
	ada("https://web.archive.org/y", "https:", "web.archive.org", "https://web.archive.org/y")
	verifmodel.Site[base+"/r.js"] = &verifmodel.Page{Status: 301, Location: "https://web.archive.org/y"}
	verifmodel.Site[base+"/r2.js"] = &verifmodel.Page{Status: 301, Location: base + "/t.png"}
	verifmodel.Site[base+"/t.png"] = &verifmodel.Page{Status: 200}
	// assets that fail: one for good (503 on every attempt), one whose first attempt dies on the wire
	ada(base+"/down.png", "http:", "site.example", base+"/down.png")
	ada(base+"/flaky.png", "http:", "site.example", base+"/flaky.png")
	verifmodel.Site[base+"/down.png"] = &verifmodel.Page{Status: 503}
	verifmodel.Site[base+"/flaky.png"] = &verifmodel.Page{Status: 200, NetFails: 1}
	rootKind := verifrt.Choice("root-answers", 5)
	rp := &verifmodel.Page{Status: 200, Kind: "html"}
	switch rootKind {
	case 1:
		rp = &verifmodel.Page{Status: 301, Location: base + "/next"}
	case 2:
		rp = &verifmodel.Page{Status: 404, Kind: "html"}
	case 3:
		rp = &verifmodel.Page{Status: 503}
	case 4:
		rp.NetFails = 1
	}
	nAssets := 0
	if rootKind == 0 || rootKind == 4 {
		nAssets = verifrt.Choice("assets", maxAssets+1)
		for i := 0; i < nAssets; i++ {
			rp.Assets = append(rp.Assets, pool[verifrt.Choice("asset", len(pool))])
		}
		if verifrt.Choice("has-outlink", 2) == 1 {
			rp.Outlinks = []string{"http://other.example/page"}
		}
	}
	verifmodel.Site[root] = rp

	// ---- the pipeline, wired as controler.startPipeline does ----
	reactorOut := make(chan *models.Item, 1)
	preOut := make(chan *models.Item, 1)
	archOut := make(chan *models.Item, 1)
	postOut := make(chan *models.Item, 1)
	finishCh := make(chan *models.Item, 4)
	produceCh := make(chan *models.Item, 4)
	must(reactor.Start(1, reactorOut))
	// a relay between reactor and preprocessor counts the passes a seed makes through the pipeline
	preIn := make(chan *models.Item, 1)
	passes := 0
	verifrt.Go(func() {
		for it := range reactorOut {
			passes++
			verifrt.Assert(passes <= 8, "C06 every seed finishes after a bounded number of pipeline passes")
			preIn <- it
		}
	})
	must(preprocessor.Start(preIn, preOut))
	must(archiver.Start(preOut, archOut))
	must(postprocessor.Start(archOut, postOut))
	must(finisher.Start(postOut, finishCh, produceCh))

	seed := models.NewItem("seed-1", &models.URL{Raw: root}, "")
	must(seed.SetSource(models.ItemSourceQueue))
	must(reactor.ReceiveInsert(seed))
	verifrt.Quiesce() // a deadlock or a stage panic before this point is reported by the engine
	if !verifrt.Symbolic() {
		// native: wait for the finish report (retries sleep for seconds), then let late duplicates show up
		for i := 0; i < 400 && len(finishCh) == 0; i++ {
			time.Sleep(100 * time.Millisecond)
		}
		time.Sleep(500 * time.Millisecond)
	}

	// ---- observations at quiescence ----
	finished := 0
	for len(finishCh) > 0 {
		it := <-finishCh
		verifrt.Assert(it == seed, "C01 only accepted seeds are reported finished")
		finished++
	}
	verifrt.Assert(finished == 1, "C01 the seed is reported finished exactly once")
	verifrt.Assert(len(reactor.GetStateTable()) == 0, "C01 a finished seed is no longer tracked by the reactor")
	pending := 0
	seed.Traverse(func(n *models.Item) {
		st := n.GetStatus()
		if st == models.ItemFresh || st == models.ItemPreProcessed || st == models.ItemArchived {
			pending++
		}
		if (st == models.ItemGotChildren || st == models.ItemGotRedirected) {
			pending++ // still waiting for children
		}
	})
	verifrt.Assert(pending == 0, "C01 the seed is finished only after every URL of its tree is done")
	// every URL was answered at most once (never fetched twice within the tree), the root was attempted
	verifrt.Assert(attempts(root) >= 1, "C01 the seed URL is attempted")
	for _, u := range []string{root, base + "/a.png", base + "/b.css", base + "/c.woff", base + "/missing.png", base + "/next", base + "/r.js", base + "/r2.js", base + "/t.png"} {
		want503 := u == root && rootKind == 3 // (down.png, answered 503 on every attempt, is not in this list)
		if !want503 {
			verifrt.Assert(fetched(u) <= 1, "C08 no URL of the tree is fetched twice")
		}
	}
	verifrt.Assert(fetched("https://web.archive.org/x") == 0 && fetched("https://web.archive.org/y") == 0 && attempts("ftp://files.example/f") == 0, "C05 out-of-scope assets are never requested")
	pageOK := rootKind == 0 || rootKind == 4 && cfg.MaxRetry >= 1
	if pageOK && !cfg.DisableAssetsCapture {
		for i := 0; i < nAssets; i++ {
			a := rp.Assets[i]
			if a == base+"/r2.js" && cfg.MaxRedirect >= 1 {
				verifrt.Cover("asset-redirect-followed")
				verifrt.Assert(fetched(base+"/t.png") == 1, "C01 the redirect target of an asset is fetched")
			}
			if a == base+"/r.js" {
				verifrt.Cover("asset-redirects-out-of-scope")
			}
			if a == base+"/a.png" || a == base+"/b.css" || a == base+"/missing.png" || a == base+"/r.js" || a == base+"/r2.js" {
				verifrt.Cover("asset-fetched")
				verifrt.Assert(fetched(a) == 1, "C01 every in-scope asset of the page is fetched")
			}
			if a == base+"/down.png" {
				verifrt.Cover("asset-fails-for-good")
				verifrt.Assert(fetched(a) == cfg.MaxRetry+1, "C06 a failing URL is attempted max-retry + 1 times")
			}
			if a == base+"/flaky.png" {
				verifrt.Cover("asset-fails-once")
				verifrt.Assert(attempts(a) >= 1 && fetched(a) <= 1, "C01 an asset whose first attempt fails is retried at most until it answers")
			}
			if a == base+"/b.css" {
				verifrt.Cover("asset-of-asset")
				verifrt.Assert(fetched(base+"/c.woff") == 1, "C01 assets of assets are fetched")
			}
		}
	}
	if rootKind == 1 {
		if cfg.MaxRedirect >= 1 {
			verifrt.Cover("redirect-followed")
			verifrt.Assert(fetched(base+"/next") == 1, "C01 the redirect target is fetched")
		} else {
			verifrt.Assert(fetched(base+"/next") == 0, "C06 no redirect is followed beyond max-redirect")
		}
	}
	if rootKind == 3 {
		verifrt.Cover("always-failing")
		verifrt.Assert(fetched(root) == cfg.MaxRetry+1, "C06 a failing URL is attempted max-retry + 1 times")
	}
	// outlinks reach the queue as fresh seeds
	produced := 0
	for len(produceCh) > 0 {
		o := <-produceCh
		produced++
		verifrt.Assert(o.IsSeed() && o.GetStatus() == models.ItemFresh && o.GetSeedVia() == root, "C15 an outlink is handed to the queue as a fresh seed with its parent as via")
	}
	wantOut := 0
	if pageOK && len(rp.Outlinks) == 1 && cfg.MaxHops >= 1 {
		wantOut = 1
		verifrt.Cover("outlink-produced")
	}
	verifrt.Assert(produced == wantOut, "C01 outlinks are queued once, and only within the hop limit")
	verifrt.Cover("finished")
}

func must(err error) {
	if err != nil {
		panic(err)
	}
}

// VerifH_C01_two_seeds: two seeds in flight at once (two reactor tokens) through the real stages, one worker per
// stage: each seed is reported finished exactly once, only when its own tree is done, whatever the other seed is doing
// and in whichever order the stages hand them on; an asset both pages embed is fetched once when seencheck is on.
func VerifH_C01_two_seeds() {
	verifrt.MapOrderAll(false)
	cfg := &config.Config{WorkersCount: 1, MaxConcurrentAssets: 1, HTTPReadDeadline: 10, UserAgent: "verif", DisableRateLimit: true,
		ExcludeHosts: []string{"archive.org", "archive-it.org"}}
	cfg.UseSeencheck = verifrt.Choice("seencheck", 2) == 1
	config.VerifSet(cfg)
	domainscrawl.Reset()
	var nat *c01Native
	if !verifrt.Symbolic() {
		_ = stats.Init()
		nat = c01StartNative(cfg)
		defer os.RemoveAll(nat.dir)
		defer nat.ts.Close()
	}
	if cfg.UseSeencheck {
		verifmodel.SeenStore = map[string]string{}
		if verifrt.Symbolic() {
			_ = seencheck.Start("/nonexistent")
		} else {
			must(seencheck.Start(nat.dir))
			defer seencheck.Close()
		}
	}
	fetched := func(u string) int {
		if nat == nil {
			return verifmodel.SiteFetched[u]
		}
		nat.mu.Lock()
		defer nat.mu.Unlock()
		return nat.fetched[u]
	}
	roots := []string{base + "/", base + "/two"}
	for _, u := range []string{roots[0], roots[1], base + "/a.png", base + "/b.css", base + "/c.woff", base + "/missing.png"} {
		ada(u, "http:", "site.example", u)
	}
	verifmodel.Site[base+"/a.png"] = &verifmodel.Page{Status: 200}
	verifmodel.Site[base+"/b.css"] = &verifmodel.Page{Status: 200, Kind: "css", Assets: []string{base + "/c.woff"}}
	verifmodel.Site[base+"/c.woff"] = &verifmodel.Page{Status: 200}
	verifmodel.Site[base+"/missing.png"] = &verifmodel.Page{Status: 404}
	pools := [][]string{{"", base + "/a.png", base + "/missing.png"}, {"", base + "/a.png", base + "/b.css"}}
	var assets [2]string
	for i := range roots {
		p := &verifmodel.Page{Status: 200, Kind: "html"}
		assets[i] = pools[i][verifrt.Choice("asset-of-page", len(pools[i]))]
		if assets[i] != "" {
			p.Assets = []string{assets[i]}
		}
		verifmodel.Site[roots[i]] = p
	}

	reactorOut := make(chan *models.Item, 1)
	preOut := make(chan *models.Item, 1)
	archOut := make(chan *models.Item, 1)
	postOut := make(chan *models.Item, 1)
	finishCh := make(chan *models.Item, 4)
	produceCh := make(chan *models.Item, 4)
	must(reactor.Start(2, reactorOut))
	must(preprocessor.Start(reactorOut, preOut))
	must(archiver.Start(preOut, archOut))
	must(postprocessor.Start(archOut, postOut))
	must(finisher.Start(postOut, finishCh, produceCh))

	var seeds [2]*models.Item
	for i := range roots {
		seeds[i] = models.NewItem("seed-"+string(rune('1'+i)), &models.URL{Raw: roots[i]}, "")
		must(seeds[i].SetSource(models.ItemSourceQueue))
		must(reactor.ReceiveInsert(seeds[i]))
	}
	verifrt.Quiesce()
	if !verifrt.Symbolic() {
		for i := 0; i < 400 && len(finishCh) < 2; i++ {
			time.Sleep(100 * time.Millisecond)
		}
		time.Sleep(500 * time.Millisecond)
	}

	var finished [2]int
	for len(finishCh) > 0 {
		it := <-finishCh
		verifrt.Assert(it == seeds[0] || it == seeds[1], "C01 only accepted seeds are reported finished")
		if it == seeds[0] {
			finished[0]++
		} else {
			finished[1]++
		}
	}
	verifrt.Assert(finished[0] == 1 && finished[1] == 1, "C01 each seed in flight is reported finished exactly once")
	verifrt.Assert(len(reactor.GetStateTable()) == 0, "C01 a finished seed is no longer tracked by the reactor")
	for i := range seeds {
		pending := 0
		seeds[i].Traverse(func(n *models.Item) {
			st := n.GetStatus()
			if st != models.ItemCompleted && st != models.ItemSeen && st != models.ItemFailed {
				pending++
			}
		})
		verifrt.Assert(pending == 0, "C01 the seed is finished only after every URL of its tree is done")
		verifrt.Assert(fetched(roots[i]) == 1, "C01 every seed URL is fetched")
		if assets[i] != "" && assets[0] != assets[1] { // (a shared asset is counted below)
			verifrt.Assert(fetched(assets[i]) == 1, "C01 every in-scope asset of the page is fetched")
		}
	}
	if assets[0] == assets[1] && assets[0] != "" {
		verifrt.Cover("shared-asset")
		if cfg.UseSeencheck {
			verifrt.Assert(fetched(assets[0]) == 1, "C08 an asset two pages share is fetched once when seencheck is on")
		} else {
			verifrt.Assert(fetched(assets[0]) == 2, "C01 every in-scope asset of the page is fetched")
		}
	}
	if assets[1] == base+"/b.css" {
		verifrt.Cover("asset-of-asset")
		verifrt.Assert(fetched(base+"/c.woff") == 1, "C01 assets of assets are fetched")
	}
	verifrt.Assert(len(produceCh) == 0, "C01 outlinks are queued once, and only within the hop limit")
	verifrt.Cover("finished")
}
