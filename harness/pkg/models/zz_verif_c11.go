//go:build verif

package models

import (
	"fmt"

	"github.com/internetarchive/Zeno/internal/verifrt"
)

// ---------- symbolic trees ----------

type c11Tree struct {
	seed  *Item
	nodes []*Item // every pre-allocated node that is part of the tree, seed first (construction order)
}

func c11URL(name string, classes int) *URL {
	b := uint8(verifrt.IntRange(name, 0, int64(classes-1)))
	u := &URL{}
	u.once.Do(func() {})
	u.stringCache = string([]byte{'a' + b})
	u.Raw = u.stringCache
	return u
}

func c11Status(name string) ItemState {
	return ItemState(verifrt.IntRange(name, 0, 7))
}

// c11Build makes a tree whose shape (children counts), statuses and URL classes are symbolic.
func c11Build(levels, fanout, classes int) *c11Tree {
	fan := make([]int, levels-1)
	for i := range fan {
		fan[i] = fanout
	}
	return c11BuildFan(fan, classes)
}

// c11BuildFan: fan[d] is the largest number of children of a node at depth d (the tree has len(fan)+1 levels).
func c11BuildFan(fan []int, classes int) *c11Tree {
	levels := len(fan) + 1
	t := &c11Tree{}
	n := 0
	var build func(parent *Item, depth int) *Item
	build = func(parent *Item, depth int) *Item {
		id := fmt.Sprintf("n%d", n)
		n++
		it := &Item{id: id, url: c11URL("url_"+id, classes), status: c11Status("status_" + id), parent: parent}
		t.nodes = append(t.nodes, it)
		if depth < levels-1 {
			k := verifrt.Choice("kids_"+id, fan[depth]+1)
			for i := 0; i < k; i++ {
				it.children = append(it.children, build(it, depth+1))
			}
		}
		return it
	}
	t.seed = build(nil, 0)
	return t
}

// present returns the nodes reachable from the seed through children links (reference traversal).
func c11Present(seed *Item) []*Item {
	var out []*Item
	var walk func(n *Item, d int)
	walk = func(n *Item, d int) {
		if n == nil || d > 8 {
			return
		}
		out = append(out, n)
		for _, c := range n.children {
			walk(c, d+1)
		}
	}
	walk(seed, 0)
	return out
}

// c11WellFormed: unique ids, symmetric parent/child links, no node present twice, no nil child.
func c11WellFormed(seed *Item) bool {
	ps := c11Present(seed)
	if seed.parent != nil {
		return false
	}
	for i, a := range ps {
		for _, c := range a.children {
			if c == nil || c.parent != a {
				return false
			}
		}
		for j := i + 1; j < len(ps); j++ {
			if ps[j] == a || ps[j].id == a.id {
				return false
			}
		}
	}
	return true
}

func c11Pending(s ItemState) bool {
	return verifrt.Any(s == ItemFresh, s == ItemPreProcessed, s == ItemArchived)
}

func c11Terminal(s ItemState) bool {
	return verifrt.Any(s == ItemCompleted, s == ItemSeen, s == ItemFailed)
}

// c11Reach is the reachability invariant R1 that the stages maintain on top of CheckConsistency:
// only working-set leaves ever get SetStatus, inner nodes change only through markCompleted, so a node
// with children is GotChildren, GotRedirected or Completed, and a Completed one has only finished children.
func c11Reach(seed *Item) bool {
	var conds []bool
	for _, n := range c11Present(seed) {
		if len(n.children) == 0 {
			continue
		}
		conds = append(conds, verifrt.Any(n.status == ItemGotChildren, n.status == ItemGotRedirected, n.status == ItemCompleted))
		for _, c := range n.children {
			conds = append(conds, verifrt.Implies(n.status == ItemCompleted, c11Terminal(c.status)))
		}
	}
	return verifrt.All(conds...)
}

// c11PipelineShape is the state in which the preprocessor calls DedupeItems (R2): freshly added nodes sit at the
// deepest level only (preprocess panics otherwise), every other node has been through the pipeline already, and the
// previous de-duplication left the processed non-seed nodes with distinct URLs.
func c11PipelineShape(seed *Item) bool {
	ps := c11Present(seed)
	var depthOf func(n *Item) int64
	depthOf = func(n *Item) int64 {
		if n.parent == nil {
			return 0
		}
		return depthOf(n.parent) + 1
	}
	max := int64(0)
	for _, n := range ps {
		if d := depthOf(n); d > max {
			max = d
		}
	}
	var conds []bool
	for i, n := range ps {
		if n.parent == nil {
			continue
		}
		if depthOf(n) != max {
			conds = append(conds, n.status != ItemFresh)
		}
		conds = append(conds, verifrt.Any(n.status == ItemFresh, n.status == ItemFailed, n.status == ItemCompleted,
			n.status == ItemSeen, n.status == ItemGotRedirected, n.status == ItemGotChildren))
		for j := i + 1; j < len(ps); j++ {
			conds = append(conds, verifrt.Any(n.url.stringCache != ps[j].url.stringCache, n.status == ItemFresh, ps[j].status == ItemFresh))
		}
	}
	return verifrt.All(conds...)
}

// ---------- obligations ----------

func c11Dedupe(levels, fanout, classes int, pipelineShaped bool) {
	t := c11Build(levels, fanout, classes)
	verifrt.Assume(t.seed.CheckConsistency() == nil)
	if pipelineShaped {
		verifrt.Assume(c11Reach(t.seed))
		verifrt.Assume(c11PipelineShape(t.seed))
	}
	pre := c11Present(t.seed)
	preURL := make([]string, len(pre))
	preDone := make([]bool, len(pre))
	for i, n := range pre {
		preURL[i] = n.url.stringCache
		preDone[i] = n.status == ItemCompleted
	}
	err := t.seed.DedupeItems()
	verifrt.Assert(err == nil, "C11 dedupe accepts a seed")
	post := c11Present(t.seed)
	if len(post) < len(pre) {
		verifrt.Cover("dedupe-removed-a-node")
	}
	verifrt.Assert(c11WellFormed(t.seed), "C11 dedupe keeps the tree well-formed")
	verifrt.Assert(t.seed.CheckConsistency() == nil, "C11 dedupe keeps the model's consistency check")
	// exactly one node per URL among non-seed nodes
	var dup []bool
	for i := 1; i < len(post); i++ {
		for j := i + 1; j < len(post); j++ {
			dup = append(dup, post[i].url.stringCache == post[j].url.stringCache)
		}
	}
	verifrt.Assert(!verifrt.Any(dup...), "C11 dedupe leaves one node per URL")
	if !pipelineShaped {
		// on arbitrary consistent trees (two processed nodes may share a URL) only uniqueness is demanded:
		// keeping one of two processed duplicates necessarily drops the other one's subtree
		return
	}
	// no URL is discarded altogether
	var keptAll, keptDoneAll []bool
	for i := 1; i < len(pre); i++ {
		var kept []bool
		var keptDone []bool
		for j := 1; j < len(post); j++ {
			eq := post[j].url.stringCache == preURL[i]
			kept = append(kept, eq)
			keptDone = append(keptDone, verifrt.All(eq, post[j].status == ItemCompleted))
		}
		keptAll = append(keptAll, verifrt.Any(kept...))
		keptDoneAll = append(keptDoneAll, verifrt.Implies(preDone[i], verifrt.Any(keptDone...)))
	}
	verifrt.Assert(verifrt.All(keptAll...), "C11 dedupe never discards a URL altogether")
	verifrt.Assert(verifrt.All(keptDoneAll...), "C11 dedupe keeps the completed copy")
}

func VerifH_C11_dedupe_small() { c11Dedupe(3, 2, 3, true) }
func VerifH_C11_dedupe_wide()  { c11Dedupe(2, 4, 3, true) }

// VerifH_C11_dedupe_anytree: every tree the model's consistency check accepts, whatever its statuses.
func VerifH_C11_dedupe_anytree() { c11Dedupe(3, 2, 2, false) }

// c11Complete: CompleteAndCheck() is true iff nothing in the tree still awaits fetching or post-processing.
func c11Complete(levels, fanout int) {
	fan := make([]int, levels-1)
	for i := range fan {
		fan[i] = fanout
	}
	c11CompleteFan(fan)
}

func c11CompleteFan(fan []int) {
	t := c11BuildFan(fan, 2)
	verifrt.Assume(t.seed.CheckConsistency() == nil)
	verifrt.Assume(c11Reach(t.seed))
	pre := c11Present(t.seed)
	preStatus := make([]ItemState, len(pre))
	var anyPending []bool
	for i, n := range pre {
		preStatus[i] = n.status
		anyPending = append(anyPending, c11Pending(n.status))
	}
	got := t.seed.CompleteAndCheck()
	if got {
		verifrt.Cover("complete-true")
	} else {
		verifrt.Cover("complete-false")
	}
	want := !verifrt.Any(anyPending...)
	verifrt.Assert(got == want, "C11 seed complete iff no node awaits fetching or post-processing")
	// completion marking never touches a pending node and keeps the structure
	post := c11Present(t.seed)
	verifrt.Assert(len(post) == len(pre), "C11 completion marking keeps all nodes")
	var keepP, keepT []bool
	for i, n := range pre {
		keepP = append(keepP, verifrt.Implies(c11Pending(preStatus[i]), n.status == preStatus[i]))
		keepT = append(keepT, verifrt.Implies(c11Terminal(preStatus[i]), n.status == preStatus[i]))
	}
	verifrt.Assert(verifrt.All(keepP...), "C11 completion never changes a pending node")
	verifrt.Assert(verifrt.All(keepT...), "C11 completion never changes a terminal node")
	verifrt.Assert(t.seed.CheckConsistency() == nil, "C11 completion keeps the model's consistency check")
}

func VerifH_C11_complete_small() { c11Complete(3, 2) }
// four levels (the asset-of-asset-of-asset depth the pipeline reaches), at most 7 nodes
func VerifH_C11_complete_deep() { c11CompleteFan([]int{2, 2, 1}) }

// VerifH_C11_levels: GetNodesAtLevel(GetMaxDepth()) is exactly the set of deepest present nodes.
func VerifH_C11_levels() {
	t := c11Build(3, 2, 2)
	var depthOf func(n *Item) int64
	depthOf = func(n *Item) int64 {
		if n.parent == nil {
			return 0
		}
		return depthOf(n.parent) + 1
	}
	pre := c11Present(t.seed)
	max := int64(0)
	for _, n := range pre {
		if d := depthOf(n); d > max {
			max = d
		}
	}
	verifrt.Assert(t.seed.GetMaxDepth() == max, "C11 GetMaxDepth is the depth of the deepest node")
	got, err := t.seed.GetNodesAtLevel(max)
	verifrt.Assert(err == nil, "C11 GetNodesAtLevel accepts a seed")
	cnt := 0
	for _, n := range pre {
		if depthOf(n) == max {
			cnt++
			found := false
			for _, g := range got {
				if g == n {
					found = true
				}
			}
			verifrt.Assert(found, "C11 every deepest node is in the working set")
		}
	}
	verifrt.Assert(len(got) == cnt, "C11 working set has no extra node")
	if max == 2 {
		verifrt.Cover("three-levels")
	}
}

// VerifH_C11_addremove: AddChild / RemoveChild from an arbitrary consistent tree.
func VerifH_C11_addremove() {
	t := c11Build(3, 2, 2)
	verifrt.Assume(t.seed.CheckConsistency() == nil)
	pre := c11Present(t.seed)
	target := pre[verifrt.Choice("target", len(pre))]
	if verifrt.Choice("op", 2) == 0 {
		// the stages add children only to a node they have just archived (no children yet)
		verifrt.Assume(len(target.children) == 0)
		from := ItemGotChildren
		if verifrt.Choice("from", 2) == 1 {
			from = ItemGotRedirected
		}
		child := NewItem("fresh", c11URL("url_fresh", 2), "")
		err := target.AddChild(child, from)
		verifrt.Assert(err == nil, "C11 AddChild accepts a fresh child")
		verifrt.Cover("added")
		verifrt.Assert(child.parent == target && child.status == ItemFresh && target.status == from, "C11 AddChild links parent and child")
		post := c11Present(t.seed)
		verifrt.Assert(len(post) == len(pre)+1, "C11 AddChild adds exactly one node")
	} else {
		verifrt.Assume(target.parent != nil)
		// the preprocessor removes rejected fresh leaves
		verifrt.Assume(len(target.children) == 0)
		p := target.parent
		p.RemoveChild(target)
		verifrt.Cover("removed")
		post := c11Present(t.seed)
		verifrt.Assert(len(post) == len(pre)-1, "C11 RemoveChild removes exactly one node")
		for _, n := range post {
			verifrt.Assert(n != target, "C11 removed node is gone")
		}
	}
	verifrt.Assert(c11WellFormed(t.seed), "C11 add/remove keeps the tree well-formed")
}
