//go:build verif

package models

import (
	"github.com/internetarchive/Zeno/internal/verifrt"
)

var c09URLs = []string{
	"http://h.example/p?b=1&a=2",
	"http://h.example/p?a=1&a=2&b=3",
	"http://h.example/p?z=9&y=8&x=7",
	"http://h.example/p?only=1",
	"http://h.example/p?flag&k=v",
	"http://h.example/p",
}

var c09Want = []string{
	"http://h.example/p?b=1&a=2",
	"http://h.example/p?a=1&a=2&b=3",
	"http://h.example/p?z=9&y=8&x=7",
	"http://h.example/p?only=1",
	"http://h.example/p?flag=&k=v",
	"http://h.example/p",
}

// VerifH_C09_query_canonical: the canonical string is a function of the URL text (two URL objects for the same text
// agree - whatever order Go's map iteration takes) and well-formed query parameters keep their order and multiplicity.
func VerifH_C09_query_canonical() {
	k := verifrt.Choice("url", len(c09URLs))
	a := &URL{Raw: c09URLs[k]}
	b := &URL{Raw: c09URLs[k]}
	if a.Parse() != nil || b.Parse() != nil {
		panic("unparsable table entry")
	}
	sa, sb := a.String(), b.String()
	if k < 3 {
		verifrt.Cover("several-keys")
	}
	verifrt.Assert(sa == sb, "C09 the same URL text always gives the same canonical string")
	verifrt.Assert(sa == c09Want[k], "C09 query parameters keep their order and multiplicity")
	verifrt.Assert(a.String() == sa, "C09 the canonical string of one URL object is stable")
}

func c09Alpha(s string, alpha string) {
	for i := 0; i < len(s); i++ {
		var in []bool
		for j := 0; j < len(alpha); j++ {
			in = append(in, s[i] == alpha[j])
		}
		verifrt.Assume(verifrt.Any(in...))
	}
}

// c09RefQuery is the canonical form of a WELL-FORMED query (letters, digits, '=', '&' only), written from the statement:
// the parameters in source order, each as key=value (a key without '=' gets an empty value; a '=' inside the value is escaped), empty pairs dropped.
func c09RefQuery(q string) string {
	out := ""
	start := 0
	for i := 0; i <= len(q); i++ {
		if i == len(q) || q[i] == '&' {
			pair := q[start:i]
			start = i + 1
			if pair == "" {
				continue
			}
			eq := -1
			for j := 0; j < len(pair); j++ {
				if pair[j] == '=' {
					eq = j
					break
				}
			}
			if out != "" {
				out += "&"
			}
			if eq == -1 {
				out += pair + "="
			} else {
				out += pair[:eq+1]
				for j := eq + 1; j < len(pair); j++ { // a further '=' belongs to the value and is written escaped
					if pair[j] == '=' {
						out += "%3D"
					} else {
						out += pair[j : j+1]
					}
				}
			}
		}
	}
	return out
}

// VerifH_C09_encode_query: the query canonicaliser on every query text of up to 5 bytes over the characters it and
// net/url look at: re-encoding its own output changes nothing (idempotence), well-formed parameters keep their order
// and multiplicity (reference above), and no input makes it panic.
func VerifH_C09_encode_query() {
	q := verifrt.String("query", 5)
	c09Alpha(q, "a2=&%+;")
	once := encodeQuery(q)
	twice := encodeQuery(once)
	verifrt.Assert(twice == once, "C09 normalising a canonical query again leaves it unchanged")
	wellFormed := true
	for i := 0; i < len(q); i++ {
		if q[i] == '%' || q[i] == '+' || q[i] == ';' {
			wellFormed = false
		}
	}
	if wellFormed {
		verifrt.Cover("well-formed-query")
		verifrt.Assert(once == c09RefQuery(q), "C09 query parameters keep their order and multiplicity")
	} else {
		verifrt.Cover("escapes-in-query")
	}
	for i := 0; i < len(once); i++ {
		verifrt.Assert(once[i] != '#' && once[i] != ' ' && once[i] != ';', "C09 the canonical query contains no fragment mark, blank or semicolon")
	}
}
