//go:build verif

package models

import (
	"github.com/internetarchive/Zeno/internal/verifrt"
)

var c09URLs = []string{
	"http://h.example/p?b=1&a=2",
	"http://h.example/p?a=1&a=2&b=3",
	"http://h.example/p?z=9&y=8&x=7",
	"http://h.example/p?only=1",
	"http://h.example/p?flag&k=v",
	"http://h.example/p",
}

var c09Want = []string{
	"http://h.example/p?b=1&a=2",
	"http://h.example/p?a=1&a=2&b=3",
	"http://h.example/p?z=9&y=8&x=7",
	"http://h.example/p?only=1",
	"http://h.example/p?flag=&k=v",
	"http://h.example/p",
}

// VerifH_C09_query_canonical: the canonical string is a function of the URL text (two URL objects for the same text
// agree - whatever order Go's map iteration takes) and well-formed query parameters keep their order and multiplicity.
func VerifH_C09_query_canonical() {
	k := verifrt.Choice("url", len(c09URLs))
	a := &URL{Raw: c09URLs[k]}
	b := &URL{Raw: c09URLs[k]}
	if a.Parse() != nil || b.Parse() != nil {
		panic("unparsable table entry")
	}
	sa, sb := a.String(), b.String()
	if k < 3 {
		verifrt.Cover("several-keys")
	}
	verifrt.Assert(sa == sb, "C09 the same URL text always gives the same canonical string")
	verifrt.Assert(sa == c09Want[k], "C09 query parameters keep their order and multiplicity")
	verifrt.Assert(a.String() == sa, "C09 the canonical string of one URL object is stable")
}
