#!/bin/bash
# run every claimed check (tier $1, default quick) sequentially; print one summary line each
TIER=${1:-quick}
cd "$(dirname "$0")/.."
for p in $(python3 -c "import json;print(' '.join(c['property_id'] for c in json.load(open('MANIFEST.json'))['checks']))"); do
  s=$(date +%s)
  out=$(./check $p --tier $TIER 2>&1); rc=$?
  echo "$p rc=$rc $(( $(date +%s)-s ))s $(echo "$out" | grep -E '^property=' | tail -1)"
  echo "$out" | grep -E '^VIOLATION|^INCONCLUSIVE|^KNOWN' | head -5
done
