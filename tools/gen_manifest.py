#!/usr/bin/env python3
"""Regenerate /verif/MANIFEST.json from props.py (claimed checks) and NA.py (not applicable reasons)."""
import json, os, sys
V = os.path.dirname(os.path.dirname(os.path.abspath(__file__)))
sys.path.insert(0, V)
import props
ALL = ["C%02d" % i for i in range(1, 20)]
na = dict(props.NOT_APPLICABLE)
claimed = [p for p in ALL if p in props.PROPS and p not in na]
m = {
 "version": 1,
 "setup_cmd": "./check --build",
 "hooks": {"guard": "verif",
           "enable": "checks inject //go:build verif overlay files from /verif/harness (go/packages Overlay for the symbolic run, go test -tags verif -overlay for the native replay); /repo itself carries no hook",
           "baseline_off_cmd": "cd /repo && GOFLAGS=-mod=mod GOPROXY=off go test -vet=off -count=1 -timeout 25m ./...",
           "source_commits": [], "add_only": True},
 "engines": [{"name": "ssa-symex", "path": "engine", "serves_properties": claimed,
              "kind_free_text": "symbolic executor over golang.org/x/tools/go/ssa (SSA rebuilt from /repo's working tree on every run) emitting SMT-LIB2 (bit-vectors, IEEE floats) decided by z3 5.1 raced with cvc5 1.0; counterexamples replayed natively via go test -overlay before being reported"}],
 "checks": [],
 "not_applicable": [],
 "notes": "see DESIGN.md; exit 2 = inconclusive (never success). known_findings.json lists defects found (fixed ones suppress nothing).",
}
for p in ALL:
    if p not in props.PROPS and p not in na:
        na[p] = "no check built yet for this property in this session (see DESIGN.md status table)"
m["not_applicable"] = [{"property_id": p, "reason": na[p]} for p in ALL if p in na]
for p in claimed:
    P = props.PROPS[p]
    m["checks"].append({
        "property_id": p, "quick_cmd": "./check %s --tier quick" % p, "thorough_cmd": "./check %s --tier thorough" % p,
        "evidence_file": "evidence/%s.json" % p, "replay_cmd_template": "./check %s --replay {path}" % p, "engine": "ssa-symex",
        "level_claimed": {"category": P["level"], "text": P["explanation"], "design_ref": P.get("design_ref", "DESIGN.md section 5/6, " + p)},
        "level_note": "bounds: " + P["bounds"] + " | outside: " + P.get("outside", "") + " | trusted: go/ssa, engine encoding, z3/cvc5, stub contracts in evidence.assumptions",
        "technique": P.get("technique", "symbolic execution of go/ssa + SMT (z3 raced with cvc5), counterexample replay on native build"),
    })
json.dump(m, open(os.path.join(V, "MANIFEST.json"), "w"), indent=1)
print("claimed:", claimed)
