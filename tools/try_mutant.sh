#!/bin/bash
# usage: tools/try_mutant.sh <PROP> <worktree> <seed-name> <demo test regex> <pkg of demo> [tier]
# Confirms a sub-agent's mutant (demo fails with it / passes without, package tests pass with it),
# runs ./check <PROP> against /repo with the patch applied, reverts, and stores the mutant under /verif/seeded/.
set -u
PROP=$1; WT=$2; NAME=$3; DEMO_RE=$4; PKG=$5; TIER=${6:-quick}
export GOFLAGS=-mod=mod GOPROXY=off
cd "$WT" || exit 2
git diff -- . ':(exclude)DEMO' ':(exclude)*_test.go' > /tmp/w/$NAME.patch
test -s /tmp/w/$NAME.patch || { echo "empty patch"; exit 2; }
echo "== demo WITH mutation (expect FAIL)"; go test -vet=off -count=1 -timeout 120s -run "$DEMO_RE" $PKG 2>&1 | tail -3
echo "== existing tests WITH mutation (expect ok)"; go test -vet=off -count=1 -timeout 600s -skip "$DEMO_RE" $PKG 2>&1 | tail -3
git apply -R /tmp/w/$NAME.patch
echo "== demo WITHOUT mutation (expect ok)"; go test -vet=off -count=1 -timeout 120s -run "$DEMO_RE" $PKG 2>&1 | tail -3
git apply /tmp/w/$NAME.patch
cd /repo && git apply /tmp/w/$NAME.patch || { echo "patch does not apply to /repo"; exit 2; }
echo "== ./check $PROP on mutated /repo"
cd /verif && ./check $PROP --tier $TIER 2>&1 | grep -E "^VIOLATION|^INCONCLUSIVE|^KNOWN|^property=|harness=" | head -12
echo "check exit: ${PIPESTATUS[0]}"
cd /repo && git checkout -- . && git status --short | head -3
mkdir -p /verif/seeded/$NAME && cp /tmp/w/$NAME.patch /verif/seeded/$NAME/patch.diff && cp -r "$WT"/DEMO/* /verif/seeded/$NAME/ 2>/dev/null
