#!/bin/bash
# Re-run every seeded change against the current checks: each must be reported (exit 1 + VIOLATION).
# usage: recheck_seeded.sh [name-regex]   (default: all)
cd /verif
PAT=${1:-.}
for d in seeded/*/; do
  name=$(basename $d); echo "$name" | grep -Eq "$PAT" || continue; prop=$(python3 -c "import json;print(json.load(open('$d/meta.json'))['property'])")
  (cd /repo && git apply /verif/$d/patch.diff) || { echo "$name: patch does not apply"; continue; }
  out=$(./check $prop --tier quick 2>&1); rc=$?
  (cd /repo && git checkout -- .)
  echo "$name prop=$prop rc=$rc $(echo "$out" | grep -c '^VIOLATION') violation line(s)"
done
