#!/bin/bash
# Re-run every seeded change against the current checks: each must be reported (exit 1 + VIOLATION).
cd /verif
for d in seeded/*/; do
  name=$(basename $d); prop=$(python3 -c "import json;print(json.load(open('$d/meta.json'))['property'])")
  (cd /repo && git apply /verif/$d/patch.diff) || { echo "$name: patch does not apply"; continue; }
  out=$(./check $prop --tier quick 2>&1); rc=$?
  (cd /repo && git checkout -- .)
  echo "$name prop=$prop rc=$rc $(echo "$out" | grep -c '^VIOLATION') violation line(s)"
done
